// C05 — JSGF compilation preserves the language of the grammar.
// Generated JSGF ASTs are printed with random layout, compiled by the library,
// and the bounded language of the produced FSG is compared with the bounded
// language of the grammar seen as a context-free grammar (least fixpoint).
#include "common/fsa.h"
#include "common/pbt.h"

extern "C" {
#include <soundswallower/err.h>
#include <soundswallower/fsg_model.h>
#include <soundswallower/jsgf.h>
#include <soundswallower/logmath.h>
}

#include <cmath>
#include <set>

using namespace pbt;

namespace {

struct Node {
  enum K { TOK, REF, SEQ, ALT, GROUP, OPT, STAR, PLUS, NUL, VOID_ } k = TOK;
  std::string s;             // word, or rule name without <>
  std::vector<Node> kids;
  std::vector<std::string> wts; // ALT: weight text per alternative ("" = none)
  std::vector<std::string> tags;
  bool quoted = false;
};

struct Rule {
  std::string name;
  Node body; // always ALT
  bool pub = false;
};

struct Grammar {
  std::vector<Rule> rules;
  std::vector<std::string> words; // alphabet, index = letter
  std::string klass = "plain";    // recursion / refusal class
  bool mustRefuse = false, mayRefuse = false;
  std::set<std::string> ops;
};

typedef std::set<std::string> Lang; // each char = 'a' + word index

Lang concat(const Lang &A, const Lang &B, size_t k) {
  Lang r;
  for (auto &a : A)
    for (auto &b : B)
      if (a.size() + b.size() <= k) r.insert(a + b);
  return r;
}

struct Evaluator {
  const Grammar &g;
  size_t k;
  std::map<std::string, Lang> rl;
  Evaluator(const Grammar &g_, size_t k_) : g(g_), k(k_) {}
  int wordIdx(const std::string &w) const {
    for (size_t i = 0; i < g.words.size(); ++i)
      if (g.words[i] == w) return (int)i;
    return -1;
  }
  Lang eval(const Node &n) {
    switch (n.k) {
    case Node::TOK: return Lang{std::string(1, (char)('a' + wordIdx(n.s)))};
    case Node::REF: {
      auto it = rl.find(n.s);
      return it == rl.end() ? Lang() : it->second;
    }
    case Node::SEQ: {
      Lang r{""};
      for (auto &c : n.kids) r = concat(r, eval(c), k);
      return r;
    }
    case Node::ALT: {
      Lang r;
      for (auto &c : n.kids) {
        Lang x = eval(c);
        r.insert(x.begin(), x.end());
      }
      return r;
    }
    case Node::GROUP: return eval(n.kids[0]);
    case Node::OPT: {
      Lang r = eval(n.kids[0]);
      r.insert("");
      return r;
    }
    case Node::STAR:
    case Node::PLUS: {
      Lang x = eval(n.kids[0]);
      Lang s{""};
      for (;;) {
        Lang nx = concat(s, x, k);
        size_t before = s.size();
        s.insert(nx.begin(), nx.end());
        if (s.size() == before) break;
      }
      return n.k == Node::STAR ? s : concat(x, s, k);
    }
    case Node::NUL: return Lang{""};
    case Node::VOID_: return Lang();
    }
    return Lang();
  }
  void fixpoint() {
    for (auto &r : g.rules) rl[r.name] = Lang();
    for (int iter = 0; iter < 200; ++iter) {
      bool changed = false;
      for (auto &r : g.rules) {
        Lang x = eval(r.body);
        if (x != rl[r.name]) {
          rl[r.name] = x;
          changed = true;
        }
      }
      if (!changed) break;
    }
  }
};

// best probability per sentence for grammars without closures/optionals
typedef std::map<std::string, double> WLang;
struct WEval {
  const Grammar &g;
  size_t k;
  std::map<std::string, const Rule *> rules;
  WEval(const Grammar &g_, size_t k_) : g(g_), k(k_) {
    for (auto &r : g.rules) rules[r.name] = &r;
  }
  int wordIdx(const std::string &w) const {
    for (size_t i = 0; i < g.words.size(); ++i)
      if (g.words[i] == w) return (int)i;
    return -1;
  }
  WLang eval(const Node &n) {
    switch (n.k) {
    case Node::TOK: return WLang{{std::string(1, (char)('a' + wordIdx(n.s))), 0.0}};
    case Node::REF: return eval(rules[n.s]->body);
    case Node::GROUP: return eval(n.kids[0]);
    case Node::NUL: return WLang{{"", 0.0}};
    case Node::SEQ: {
      WLang r{{"", 0.0}};
      for (auto &c : n.kids) {
        WLang x = eval(c), nr;
        for (auto &a : r)
          for (auto &b : x)
            if (a.first.size() + b.first.size() <= k) {
              double p = a.second + b.second;
              auto it = nr.find(a.first + b.first);
              if (it == nr.end() || it->second < p) nr[a.first + b.first] = p;
            }
        r.swap(nr);
      }
      return r;
    }
    case Node::ALT: {
      double norm = 0;
      std::vector<double> w;
      for (size_t i = 0; i < n.kids.size(); ++i) {
        // the library parses weights into a float
        double x = n.wts[i].empty() ? 1.0 : (double)(float)atof(n.wts[i].c_str());
        w.push_back(x);
        norm += x;
      }
      if (norm == 0) norm = 1;
      WLang r;
      for (size_t i = 0; i < n.kids.size(); ++i) {
        WLang x = eval(n.kids[i]);
        double lp = w[i] > 0 ? std::log(w[i] / norm) : -1e30;
        for (auto &b : x) {
          double p = lp + b.second;
          auto it = r.find(b.first);
          if (it == r.end() || it->second < p) r[b.first] = p;
        }
      }
      return r;
    }
    default: return WLang();
    }
  }
};

// ---------------------------------------------------------------- generator
struct Gen {
  Choices &c;
  Grammar &g;
  int nrules;
  Gen(Choices &c_, Grammar &g_) : c(c_), g(g_) {}

  std::string weightText() {
    static const char *W[] = {"", "", "", "1", "2", "0.5", "3.25", "10", "0.1", "1e-1", "2.5e-1", "7"};
    return W[c.range(0, 11)];
  }
  void maybeTag(Node &n) {
    if (c.coin(12)) {
      static const char *T[] = {"{tag}", "{ a tag }", "{x=\\}}", "{}", "{t1}{t2}"};
      n.tags.push_back(T[c.range(0, 4)]);
    }
  }
  Node tok() {
    Node n;
    n.k = Node::TOK;
    n.s = g.words[c.range(0, (int64_t)g.words.size() - 1)];
    n.quoted = c.coin(8);
    return n;
  }
  Node atom(int rule, int depth) {
    Node n;
    size_t kind = depth <= 0 ? c.weighted({40, rule + 1 < nrules ? 12 : 0})
                             : c.weighted({40, rule + 1 < nrules ? 12 : 0, 10, 10, 8, 6, 3});
    switch (kind) {
    case 0: n = tok(); break;
    case 1:
      n.k = Node::REF;
      n.s = "r" + std::to_string(c.range(rule + 1, nrules - 1));
      g.ops.insert("ref");
      break;
    case 2:
      n.k = Node::GROUP;
      n.kids.push_back(alt(rule, depth - 1));
      g.ops.insert("group");
      break;
    case 3:
      n.k = Node::OPT;
      n.kids.push_back(alt(rule, depth - 1));
      g.ops.insert("optional");
      break;
    case 4:
    case 5: {
      n.k = kind == 4 ? Node::STAR : Node::PLUS;
      Node inner;
      size_t ik = c.weighted({5, rule + 1 < nrules ? 2 : 0, 4, 1});
      if (ik == 0) inner = tok();
      else if (ik == 1) {
        inner.k = Node::REF;
        inner.s = "r" + std::to_string(c.range(rule + 1, nrules - 1));
      } else {
        inner.k = ik == 2 ? Node::GROUP : Node::OPT;
        inner.kids.push_back(alt(rule, depth - 1));
      }
      n.kids.push_back(inner);
      g.ops.insert(kind == 4 ? "star" : "plus");
      break;
    }
    default:
      n.k = Node::NUL;
      g.ops.insert("null");
      break;
    }
    maybeTag(n);
    return n;
  }
  Node seq(int rule, int depth) {
    Node n;
    n.k = Node::SEQ;
    int len = (int)c.weighted({5, 4, 2}) + 1;
    for (int i = 0; i < len; ++i) n.kids.push_back(atom(rule, depth));
    if (len > 1) g.ops.insert("sequence");
    return n;
  }
  Node alt(int rule, int depth) {
    Node n;
    n.k = Node::ALT;
    int cnt = (int)c.weighted({5, 4, 2}) + 1;
    bool weighted = c.coin(35);
    for (int i = 0; i < cnt; ++i) {
      n.kids.push_back(seq(rule, depth));
      n.wts.push_back(weighted ? weightText() : "");
    }
    if (cnt > 1) g.ops.insert("alternatives");
    for (auto &w : n.wts)
      if (!w.empty()) g.ops.insert("weights");
    return n;
  }
};

Node mkTok(const std::string &w) {
  Node n;
  n.k = Node::TOK;
  n.s = w;
  return n;
}
Node mkRef(const std::string &r) {
  Node n;
  n.k = Node::REF;
  n.s = r;
  return n;
}
Node mkSeq(std::vector<Node> kids) {
  Node n;
  n.k = Node::SEQ;
  n.kids = kids;
  return n;
}
Node mkWrap(Node::K k, Node inner) {
  Node a;
  a.k = Node::ALT;
  a.kids.push_back(inner.k == Node::SEQ ? inner : mkSeq({inner}));
  a.wts.push_back("");
  Node n;
  n.k = k;
  n.kids.push_back(a);
  return n;
}

void addAlt(Node &body, Node seqNode, bool first) {
  if (first) {
    body.kids.insert(body.kids.begin(), seqNode);
    body.wts.insert(body.wts.begin(), "");
  } else {
    body.kids.push_back(seqNode);
    body.wts.push_back("");
  }
}

// ------------------------------------------------------------------ printer
struct Printer {
  Choices &c;
  std::string out;
  bool plainLayout;
  Printer(Choices &c_) : c(c_) { plainLayout = !c.coin(60); }
  void gap() {
    if (plainLayout) {
      out += " ";
      return;
    }
    static const char *G[] = {" ", "  ", "\n", "\t", " /* note */ ", " // eol\n", "\r\n", " /* a\n b */ "};
    out += G[c.weighted({10, 2, 3, 2, 2, 2, 1, 1})];
  }
  void node(const Node &n) {
    switch (n.k) {
    case Node::TOK: out += n.quoted ? "\"" + n.s + "\"" : n.s; break;
    case Node::REF: out += "<" + n.s + ">"; break;
    case Node::NUL: out += "<NULL>"; break;
    case Node::VOID_: out += "<VOID>"; break;
    case Node::SEQ:
      for (size_t i = 0; i < n.kids.size(); ++i) {
        if (i) gap();
        node(n.kids[i]);
      }
      break;
    case Node::ALT:
      for (size_t i = 0; i < n.kids.size(); ++i) {
        if (i) {
          gap();
          out += "|";
          gap();
        }
        if (!n.wts[i].empty()) {
          out += "/" + n.wts[i] + "/";
          gap();
        }
        node(n.kids[i]);
      }
      break;
    case Node::GROUP:
      out += "(";
      gap();
      node(n.kids[0]);
      gap();
      out += ")";
      break;
    case Node::OPT:
      out += "[";
      gap();
      node(n.kids[0]);
      gap();
      out += "]";
      break;
    case Node::STAR:
    case Node::PLUS:
      node(n.kids[0]);
      out += n.k == Node::STAR ? "*" : "+";
      break;
    }
    for (auto &t : n.tags) {
      if (!plainLayout && c.coin(50)) out += " ";
      out += t;
    }
  }
  std::string grammar(const Grammar &g) {
    static const char *H[] = {"#JSGF V1.0;", "#JSGF V1.0 UTF-8;", "#JSGF V1.0 UTF-8 en;", "\xEF\xBB\xBF#JSGF V1.0;", "#JSGF;"};
    out = H[plainLayout ? 0 : c.weighted({6, 2, 2, 1, 1})];
    gap();
    out += "grammar";
    out += " ";
    out += "gram;";
    out += "\n";
    for (auto &r : g.rules) {
      if (!plainLayout && c.coin(20)) out += "// rule " + r.name + "\n";
      if (r.pub) out += "public ";
      out += "<" + r.name + ">";
      gap();
      out += "=";
      gap();
      node(r.body);
      gap();
      out += ";\n";
    }
    return out;
  }
};

logmath_t *gLmath = nullptr;

std::string decodeSentence(const Grammar &g, const std::string &s) {
  std::string o;
  for (size_t i = 0; i < s.size(); ++i) o += (i ? " " : "") + g.words[(size_t)(s[i] - 'a')];
  return o;
}

bool hasClosureOps(const Grammar &g) {
  return g.ops.count("star") || g.ops.count("plus") || g.ops.count("optional");
}

Verdict propJsgf(Choices &c, Ctx &ctx) {
  Grammar g;
  static const char *POOL[] = {"go", "forward", "ten", "meters", "stop", "left"};
  int nw = (int)c.range(2, 4);
  for (int i = 0; i < nw; ++i) g.words.push_back(POOL[i]);
  Gen gen(c, g);
  gen.nrules = (int)c.weighted({4, 4, 3, 2}) + 1;
  int depth = (int)c.range(1, 3);
  for (int r = 0; r < gen.nrules; ++r) {
    Rule rule;
    rule.name = "r" + std::to_string(r);
    rule.pub = r == 0;
    rule.body = gen.alt(r, depth);
    g.rules.push_back(rule);
  }
  // --- class injection ---
  size_t klass = c.weighted({50, 8, 6, 5, 5, 5, 6, 5, 5, 3, 2});
  const std::string w = g.words[0], v = g.words[1], u = g.words[nw - 1];
  auto addRule = [&](const std::string &name, std::vector<Node> alts) {
    Rule r;
    r.name = name;
    r.body.k = Node::ALT;
    for (auto &a : alts) {
      r.body.kids.push_back(a);
      r.body.wts.push_back("");
    }
    g.rules.push_back(r);
  };
  bool recFirst = c.coin(50); // alternatives are expanded last-to-first: try both orders
  auto order = [&](Node rec, Node base) {
    return recFirst ? std::vector<Node>{rec, base} : std::vector<Node>{base, rec};
  };
  bool refX = false;
  switch (klass) {
  case 0: break;
  case 1: // direct tail recursion
    g.klass = "tail-recursion:direct";
    addRule("x", order(mkSeq({mkTok(w), mkRef("x")}), mkSeq({mkTok(v)})));
    refX = true;
    break;
  case 2: // tail recursion inside a nested group / optional in tail position
    g.klass = "tail-recursion:nested";
    addRule("x", order(mkSeq({mkTok(w), mkWrap(c.coin(50) ? Node::GROUP : Node::OPT, mkSeq({mkTok(u), mkRef("x")}))}), mkSeq({mkTok(v)})));
    refX = true;
    break;
  case 3: // mutual tail recursion
    g.klass = "tail-recursion:mutual";
    addRule("x", order(mkSeq({mkTok(w), mkRef("y")}), mkSeq({mkTok(v)})));
    addRule("y", order(mkSeq({mkTok(u), mkRef("x")}), mkSeq({mkTok(w)})));
    refX = true;
    break;
  case 4: // left recursion
    g.klass = "left-recursion";
    g.mustRefuse = true;
    addRule("x", order(mkSeq({mkRef("x"), mkTok(w)}), mkSeq({mkTok(v)})));
    refX = true;
    break;
  case 5: // embedded recursion, direct
    g.klass = "embedded-recursion:direct";
    g.mustRefuse = true;
    addRule("x", order(mkSeq({mkTok(w), mkRef("x"), mkTok(u)}), mkSeq({mkTok(v)})));
    refX = true;
    break;
  case 6: // embedded recursion through a nested rule that is not in tail position
    g.klass = "embedded-recursion:nested";
    g.mustRefuse = true;
    addRule("x", order(mkSeq({mkWrap(c.coin(60) ? Node::GROUP : Node::OPT, mkSeq({mkTok(w), mkRef("x")})), mkTok(u)}), mkSeq({mkTok(v)})));
    refX = true;
    break;
  case 7: { // undefined rule reachable from the public rule
    g.klass = "undefined-rule";
    g.mustRefuse = true;
    Node s = mkSeq({mkTok(w), mkRef("nope")});
    if (c.coin(50)) s.kids.push_back(mkTok(v));
    addAlt(g.rules[0].body, s, c.coin(50));
    break;
  }
  case 8: { // <VOID>: refuse, or compile the language without the void alternative
    g.klass = "void";
    g.mayRefuse = true;
    Node vn;
    vn.k = Node::VOID_;
    Node s = c.coin(50) ? mkSeq({vn}) : mkSeq({mkTok(w), vn});
    addAlt(g.rules[0].body, s, c.coin(50));
    break;
  }
  case 9: // no public rule
    g.klass = "no-public-rule";
    g.mustRefuse = true;
    g.rules[0].pub = false;
    break;
  case 10: // recursion through a Kleene star (the star's own rule makes it non-tail)
    g.klass = "embedded-recursion:under-star";
    g.mustRefuse = true;
    {
      Node st;
      st.k = Node::STAR;
      st.kids.push_back(mkWrap(Node::GROUP, mkSeq({mkTok(w), mkRef("x")})));
      addRule("x", order(mkSeq({st}), mkSeq({mkTok(v)})));
    }
    refX = true;
    break;
  }
  if (refX) {
    // reference <x> from the public rule, in tail or non-tail position
    Node s = mkSeq({mkRef("x")});
    size_t where = c.weighted({3, 2, 2});
    if (where == 1) s.kids.push_back(mkTok(u));
    if (where == 2) s.kids.insert(s.kids.begin(), mkTok(v));
    addAlt(g.rules[0].body, s, c.coin(50));
  }
  ctx.label("class:" + g.klass);

  Printer pr(c);
  std::string text = pr.grammar(g);
  ctx.desc = text;
  float lw = (float[]){1.0f, 6.5f, 9.5f, 0.5f}[c.weighted({4, 2, 1, 1})];

  // --- reference language ---
  size_t n = g.words.size();
  size_t k = 1, total = 1 + n;
  while (true) {
    size_t nextTotal = total + (size_t)std::pow((double)n, (double)(k + 1));
    if (nextTotal > 2500) break;
    total = nextTotal;
    ++k;
  }
  Evaluator ev(g, k);
  ev.fixpoint();
  const Lang &want = ev.rl["r0"];

  // --- compile: parse + public rule + build ---
  jsgf_t *jsgf = jsgf_parse_string(text.c_str(), NULL);
  PBT_CHECK(jsgf != NULL, "parse-refused", "jsgf_parse_string refused a well-formed grammar");
  jsgf_rule_t *pub = jsgf_get_public_rule(jsgf);
  fsg_model_t *fsg = pub ? jsgf_build_fsg(jsgf, pub, gLmath, lw) : NULL;
  Verdict res;
  auto compare = [&](fsg_model_t *m, const char *how) -> Verdict {
    fsa::Fsa a = fsa::readFsg(m, [](fsg_model_t *f, int wid) { return fsa::stripQuotes(fsg_model_word_str(f, wid)); });
    bool capped = false;
    auto got = fsa::language(a, (int)k, &capped);
    if (capped) return Verdict::pass();
    std::set<std::string> gotS, wantS;
    for (auto &kv : got) gotS.insert(kv.first);
    for (auto &s : want) wantS.insert(decodeSentence(g, s));
    for (auto &s : wantS)
      if (!gotS.count(s))
        return Verdict::fail(std::string("language-dropped:") + g.klass, Msg() << how << ": sentence '" << s << "' of the grammar is not accepted by the FSG (k=" << k << ", " << wantS.size() << " vs " << gotS.size() << " sentences)");
    for (auto &s : gotS)
      if (!wantS.count(s))
        return Verdict::fail(std::string("language-invented:") + g.klass, Msg() << how << ": FSG accepts '" << s << "' which the grammar does not denote (k=" << k << ", " << wantS.size() << " vs " << gotS.size() << " sentences)");
    return Verdict::pass();
  };
  if (g.mustRefuse) {
    if (fsg != NULL) {
      // say what it was compiled into
      Verdict lv = compare(fsg, "build");
      res = Verdict::fail("not-refused:" + g.klass, Msg() << "grammar of class " << g.klass << " was compiled instead of refused" << (lv.ok ? " (language happens to agree up to k)" : "; " + lv.detail));
    }
  } else if (fsg == NULL) {
    if (!g.mayRefuse) res = Verdict::fail("refused:" + g.klass, Msg() << "representable grammar (class " << g.klass << ") was refused");
  } else {
    res = compare(fsg, "build");
    // sum-to-one per choice point on the raw (unclosed) automaton, lw = 1
    if (res.ok) {
      fsg_model_t *raw = jsgf_build_fsg_raw(jsgf, pub, gLmath, 1.0f);
      if (raw) {
        fsa::Fsa a = fsa::readFsg(raw);
        std::vector<double> sum(a.nstate, 0.0);
        std::vector<int> cnt(a.nstate, 0);
        for (auto &arc : a.arcs) {
          sum[arc.from] += logmath_exp(gLmath, (int)arc.logp);
          ++cnt[arc.from];
        }
        for (int s = 0; s < a.nstate && res.ok; ++s)
          if (cnt[s] > 0 && std::fabs(sum[s] - 1.0) > 2e-4 * cnt[s] + 1e-6)
            res = Verdict::fail("weights-not-normalised", Msg() << "outgoing probabilities of state " << s << " sum to " << sum[s] << " over " << cnt[s] << " arcs");
        // building twice from the same parsed object must give the same automaton
        if (res.ok) {
          fsg_model_t *raw2 = jsgf_build_fsg_raw(jsgf, pub, gLmath, 1.0f);
          if (!raw2) res = Verdict::fail("rebuild-differs", "second build from the same parsed grammar failed");
          else {
            fsa::Fsa b = fsa::readFsg(raw2);
            auto key = [](const fsa::Fsa &x) {
              std::multiset<std::string> s;
              for (auto &arc : x.arcs) s.insert(std::to_string(arc.from) + ">" + std::to_string(arc.to) + ":" + arc.label + ":" + std::to_string(arc.logp));
              return s;
            };
            if (key(a) != key(b)) res = Verdict::fail("rebuild-differs", "second build from the same parsed grammar gives different arcs or weights");
            fsg_model_free(raw2);
          }
        }
        fsg_model_free(raw);
      }
    }
    // proportionality of weights: best-derivation probability per sentence
    if (res.ok && !hasClosureOps(g) && g.klass == "plain") {
      fsg_model_t *m1 = jsgf_build_fsg(jsgf, pub, gLmath, 1.0f);
      if (m1) {
        fsa::Fsa a = fsa::readFsg(m1, [](fsg_model_t *f, int wid) { return fsa::stripQuotes(fsg_model_word_str(f, wid)); });
        auto got = fsa::language(a, (int)k);
        WEval we(g, k);
        WLang wl = we.eval(g.rules[0].body);
        for (auto &kv : wl) {
          std::string s = decodeSentence(g, kv.first);
          auto it = got.find(s);
          if (it == got.end()) continue;
          double gotLn = logmath_log_to_ln(gLmath, (int)it->second);
          // one unit of quantisation per arc on the path; paths have at most 4*(len+1)*depth arcs
          double tol = 1.0001e-4 * (8.0 * (kv.first.size() + 2) * (depth + 2));
          if (kv.second > -1e29 && std::fabs(gotLn - kv.second) > tol) {
            res = Verdict::fail("weights-not-proportional", Msg() << "sentence '" << s << "': best path ln-probability " << gotLn << " in the FSG, " << kv.second << " from the written weights");
            break;
          }
        }
        ctx.label("oracle:weighted-language");
        fsg_model_free(m1);
      }
    }
  }
  if (fsg) fsg_model_free(fsg);
  jsgf_grammar_free(jsgf);

  // --- the one-call entry point must agree ---
  if (res.ok) {
    fsg_model_t *m = jsgf_read_string(text.c_str(), gLmath, lw);
    if (g.mustRefuse) {
      if (m) res = Verdict::fail("not-refused:" + g.klass + ":read_string", Msg() << "jsgf_read_string compiled a grammar of class " << g.klass);
    } else if (!m) {
      if (!g.mayRefuse) res = Verdict::fail("refused:" + g.klass + ":read_string", "jsgf_read_string refused a representable grammar");
    } else
      res = compare(m, "read_string");
    if (m) fsg_model_free(m);
  }

  for (auto &o : g.ops) ctx.label("op:" + o);
  ctx.label("k:" + std::to_string(k));
  ctx.nontrivial = g.mustRefuse || (want.size() >= 3 && g.ops.size() >= 2);
  return res;
}

void initJsgf() {
  err_set_loglevel(ERR_FATAL);
  gLmath = logmath_init(1.0001, 0, 1);
}

} // namespace

namespace pbt {
const PropDef kProps[] = {
    {"C05", propJsgf, false, 30000, initJsgf},
    {nullptr, nullptr, false, 0, nullptr},
};
}
