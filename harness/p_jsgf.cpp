// C05 — JSGF compilation preserves the language of the grammar.
// Generated JSGF ASTs are printed with random layout, compiled by the library,
// and the bounded language of the produced FSG is compared with the bounded
// language of the grammar seen as a context-free grammar (least fixpoint).
#include <functional>
#include "common/fsa.h"
#include "common/jsgfgen.h"
#include "common/pbt.h"

extern "C" {
#include <soundswallower/err.h>
#include <soundswallower/fsg_model.h>
#include <soundswallower/jsgf.h>
#include <soundswallower/logmath.h>
}

#include <cmath>
#include <set>

using namespace pbt;

namespace {

using namespace jsgfgen;

logmath_t *gLmath = nullptr;

std::string decodeSentence(const Grammar &g, const std::string &s) {
  std::string o;
  for (size_t i = 0; i < s.size(); ++i) o += (i ? " " : "") + g.words[(size_t)(s[i] - 'a')];
  return o;
}

bool hasClosureOps(const Grammar &g) {
  return g.ops.count("star") || g.ops.count("plus") || g.ops.count("optional");
}

Verdict propJsgf(Choices &c, Ctx &ctx) {
  Grammar g;
  static const char *POOL[] = {"go", "forward", "ten", "meters", "stop", "left"};
  int nw = (int)c.range(2, 4);
  for (int i = 0; i < nw; ++i) g.words.push_back(POOL[i]);
  Gen gen(c, g);
  gen.nrules = (int)c.weighted({4, 4, 3, 2}) + 1;
  int depth = (int)c.range(1, 3);
  for (int r = 0; r < gen.nrules; ++r) {
    Rule rule;
    rule.name = "r" + std::to_string(r);
    rule.pub = r == 0;
    rule.body = gen.alt(r, depth);
    g.rules.push_back(rule);
  }
  // --- class injection ---
  // one choice: the remainder picks among the first eleven classes with weights 50,8,6,5,5,5,6,5,5,3,2 (as it always
  // did, so replay files stay valid); one quotient value in twelve selects class 11
  uint32_t klassRaw = c.raw();
  size_t klass = 0;
  {
    static const int W[] = {50, 8, 6, 5, 5, 5, 6, 5, 5, 3, 2};
    int r = (int)(klassRaw % 100);
    while (r >= W[klass]) r -= W[klass++];
    if ((klassRaw / 100) % 12 == 11) klass = 11;
  }
  const std::string w = g.words[0], v = g.words[1], u = g.words[nw - 1];
  auto addRule = [&](const std::string &name, std::vector<Node> alts) {
    Rule r;
    r.name = name;
    r.body.k = Node::ALT;
    for (auto &a : alts) {
      r.body.kids.push_back(a);
      r.body.wts.push_back("");
    }
    g.rules.push_back(r);
  };
  bool recFirst = c.coin(50); // alternatives are expanded last-to-first: try both orders
  auto order = [&](Node rec, Node base) {
    return recFirst ? std::vector<Node>{rec, base} : std::vector<Node>{base, rec};
  };
  bool refX = false;
  switch (klass) {
  case 0: break;
  case 1: // direct tail recursion
    g.klass = "tail-recursion:direct";
    addRule("x", order(mkSeq({mkTok(w), mkRef("x")}), mkSeq({mkTok(v)})));
    refX = true;
    break;
  case 2: // tail recursion inside a nested group / optional in tail position
    g.klass = "tail-recursion:nested";
    addRule("x", order(mkSeq({mkTok(w), mkWrap(c.coin(50) ? Node::GROUP : Node::OPT, mkSeq({mkTok(u), mkRef("x")}))}), mkSeq({mkTok(v)})));
    refX = true;
    break;
  case 3: // mutual tail recursion
    g.klass = "tail-recursion:mutual";
    addRule("x", order(mkSeq({mkTok(w), mkRef("y")}), mkSeq({mkTok(v)})));
    addRule("y", order(mkSeq({mkTok(u), mkRef("x")}), mkSeq({mkTok(w)})));
    refX = true;
    break;
  case 4: // left recursion
    g.klass = "left-recursion";
    g.mustRefuse = true;
    addRule("x", order(mkSeq({mkRef("x"), mkTok(w)}), mkSeq({mkTok(v)})));
    refX = true;
    break;
  case 5: // embedded recursion, direct
    g.klass = "embedded-recursion:direct";
    g.mustRefuse = true;
    addRule("x", order(mkSeq({mkTok(w), mkRef("x"), mkTok(u)}), mkSeq({mkTok(v)})));
    refX = true;
    break;
  case 6: // embedded recursion through a nested rule that is not in tail position
    g.klass = "embedded-recursion:nested";
    g.mustRefuse = true;
    addRule("x", order(mkSeq({mkWrap(c.coin(60) ? Node::GROUP : Node::OPT, mkSeq({mkTok(w), mkRef("x")})), mkTok(u)}), mkSeq({mkTok(v)})));
    refX = true;
    break;
  case 7: { // undefined rule reachable from the public rule
    g.klass = "undefined-rule";
    g.mustRefuse = true;
    Node s = mkSeq({mkTok(w), mkRef("nope")});
    if (c.coin(50)) s.kids.push_back(mkTok(v));
    addAlt(g.rules[0].body, s, c.coin(50));
    break;
  }
  case 8: { // <VOID>: refuse, or compile the language without the void alternative
    g.klass = "void";
    g.mayRefuse = true;
    Node vn;
    vn.k = Node::VOID_;
    Node s = c.coin(50) ? mkSeq({vn}) : mkSeq({mkTok(w), vn});
    addAlt(g.rules[0].body, s, c.coin(50));
    break;
  }
  case 9: // no public rule
    g.klass = "no-public-rule";
    g.mustRefuse = true;
    g.rules[0].pub = false;
    break;
  case 10: // recursion through a Kleene star (the star's own rule makes it non-tail)
    g.klass = "embedded-recursion:under-star";
    g.mustRefuse = true;
    {
      Node st;
      st.k = Node::STAR;
      st.kids.push_back(mkWrap(Node::GROUP, mkSeq({mkTok(w), mkRef("x")})));
      addRule("x", order(mkSeq({st}), mkSeq({mkTok(v)})));
    }
    refX = true;
    break;
  case 11: { // embedded recursion through two rules: <y> uses <x> in non-tail position and <x> refers back to <y>
    // at its tail; <x> may in addition have perfectly legal tail references to itself, before or after that one
    g.klass = "embedded-recursion:mutual";
    g.mustRefuse = true;
    std::vector<Node> xa;
    Node back = mkSeq({mkTok(u), mkRef("y")});
    int nself = (int)c.range(0, 2);
    size_t pos = (size_t)c.range(0, nself);
    for (int i = 0; i < nself; ++i) xa.push_back(mkSeq({mkTok(i ? v : w), mkRef("x")}));
    xa.insert(xa.begin() + (long)pos, back);
    if (c.coin(40)) xa.insert(xa.begin() + (long)c.range(0, (int64_t)xa.size()), mkSeq({mkTok(v)}));
    addRule("x", xa);
    addRule("y", order(mkSeq({mkTok(w), mkRef("x"), mkTok(v)}), mkSeq({mkTok(u)})));
    // the public rule reaches the cycle through <y>
    Node s = mkSeq({mkRef("y")});
    if (c.coin(40)) s.kids.push_back(mkTok(u));
    addAlt(g.rules[0].body, s, c.coin(50));
    break;
  }
  }
  if (refX) {
    // reference <x> from the public rule, in tail or non-tail position
    Node s = mkSeq({mkRef("x")});
    size_t where = c.weighted({3, 2, 2});
    if (where == 1) s.kids.push_back(mkTok(u));
    if (where == 2) s.kids.insert(s.kids.begin(), mkTok(v));
    addAlt(g.rules[0].body, s, c.coin(50));
  }
  ctx.label("class:" + g.klass);

  Printer pr(c);
  std::string text = pr.grammar(g);
  ctx.desc = text;
  float lw = (float[]){1.0f, 6.5f, 9.5f, 0.5f}[c.weighted({4, 2, 1, 1})];

  // --- known finding, excluded by construction and counted: the null-transition closure takes time cubic in the
  // number of expanded states (known_findings.txt, C10 timeout:*fsg_model_null_trans_closure*); a grammar whose
  // expansion has thousands of states (a rule with repetitions referenced many times) compiles for minutes
  {
    std::map<std::string, double> memo;
    std::set<std::string> open;
    std::function<double(const Node &)> size = [&](const Node &nd) -> double {
      switch (nd.k) {
      case Node::TOK: case Node::NUL: case Node::VOID_: return 1;
      case Node::REF: {
        if (open.count(nd.s)) return 1; // recursion links back, it does not expand again
        auto it = memo.find(nd.s);
        if (it != memo.end()) return it->second;
        double r = 1;
        for (auto &rule : g.rules)
          if (rule.name == nd.s) {
            open.insert(nd.s);
            r = size(rule.body);
            open.erase(nd.s);
          }
        return memo[nd.s] = r;
      }
      default: {
        double r = 2;
        for (auto &kid : nd.kids) r += size(kid);
        return r;
      }
      }
    };
    Node root;
    root.k = Node::REF;
    root.s = "r0";
    double est = size(root);
    if (est > 1200) {
      ctx.label("excluded:expansion>1200-states(known-null-closure-blow-up)");
      return Verdict::pass();
    }
  }

  // --- reference language ---
  size_t n = g.words.size();
  size_t k = 1, total = 1 + n;
  while (true) {
    size_t nextTotal = total + (size_t)std::pow((double)n, (double)(k + 1));
    if (nextTotal > 2500) break;
    total = nextTotal;
    ++k;
  }
  Evaluator ev(g, k);
  ev.fixpoint();
  const Lang &want = ev.rl["r0"];

  // --- compile: parse + public rule + build ---
  jsgf_t *jsgf = jsgf_parse_string(text.c_str(), NULL);
  PBT_CHECK(jsgf != NULL, "parse-refused", "jsgf_parse_string refused a well-formed grammar");
  jsgf_rule_t *pub = jsgf_get_public_rule(jsgf);
  fsg_model_t *fsg = pub ? jsgf_build_fsg(jsgf, pub, gLmath, lw) : NULL;
  Verdict res;
  auto compare = [&](fsg_model_t *m, const char *how) -> Verdict {
    fsa::Fsa a = fsa::readFsg(m, [](fsg_model_t *f, int wid) { return fsa::stripQuotes(fsg_model_word_str(f, wid)); });
    bool capped = false;
    auto got = fsa::language(a, (int)k, &capped);
    if (capped) return Verdict::pass();
    std::set<std::string> gotS, wantS;
    for (auto &kv : got) gotS.insert(kv.first);
    for (auto &s : want) wantS.insert(decodeSentence(g, s));
    for (auto &s : wantS)
      if (!gotS.count(s))
        return Verdict::fail(std::string("language-dropped:") + g.klass, Msg() << how << ": sentence '" << s << "' of the grammar is not accepted by the FSG (k=" << k << ", " << wantS.size() << " vs " << gotS.size() << " sentences)");
    for (auto &s : gotS)
      if (!wantS.count(s))
        return Verdict::fail(std::string("language-invented:") + g.klass, Msg() << how << ": FSG accepts '" << s << "' which the grammar does not denote (k=" << k << ", " << wantS.size() << " vs " << gotS.size() << " sentences)");
    return Verdict::pass();
  };
  if (g.mustRefuse) {
    if (fsg != NULL) {
      // say what it was compiled into
      Verdict lv = compare(fsg, "build");
      res = Verdict::fail("not-refused:" + g.klass, Msg() << "grammar of class " << g.klass << " was compiled instead of refused" << (lv.ok ? " (language happens to agree up to k)" : "; " + lv.detail));
    }
  } else if (fsg == NULL) {
    if (!g.mayRefuse) res = Verdict::fail("refused:" + g.klass, Msg() << "representable grammar (class " << g.klass << ") was refused");
  } else {
    res = compare(fsg, "build");
    // sum-to-one per choice point on the raw (unclosed) automaton, lw = 1
    if (res.ok) {
      fsg_model_t *raw = jsgf_build_fsg_raw(jsgf, pub, gLmath, 1.0f);
      if (raw) {
        fsa::Fsa a = fsa::readFsg(raw);
        std::vector<double> sum(a.nstate, 0.0);
        std::vector<int> cnt(a.nstate, 0);
        for (auto &arc : a.arcs) {
          sum[arc.from] += logmath_exp(gLmath, (int)arc.logp);
          ++cnt[arc.from];
        }
        for (int s = 0; s < a.nstate && res.ok; ++s)
          if (cnt[s] > 0 && std::fabs(sum[s] - 1.0) > 2e-4 * cnt[s] + 1e-6)
            res = Verdict::fail("weights-not-normalised", Msg() << "outgoing probabilities of state " << s << " sum to " << sum[s] << " over " << cnt[s] << " arcs");
        // building twice from the same parsed object must give the same automaton
        if (res.ok) {
          fsg_model_t *raw2 = jsgf_build_fsg_raw(jsgf, pub, gLmath, 1.0f);
          if (!raw2) res = Verdict::fail("rebuild-differs", "second build from the same parsed grammar failed");
          else {
            fsa::Fsa b = fsa::readFsg(raw2);
            auto key = [](const fsa::Fsa &x) {
              std::multiset<std::string> s;
              for (auto &arc : x.arcs) s.insert(std::to_string(arc.from) + ">" + std::to_string(arc.to) + ":" + arc.label + ":" + std::to_string(arc.logp));
              return s;
            };
            if (key(a) != key(b)) res = Verdict::fail("rebuild-differs", "second build from the same parsed grammar gives different arcs or weights");
            fsg_model_free(raw2);
          }
        }
        fsg_model_free(raw);
      }
    }
    // proportionality of weights: best-derivation probability per sentence
    if (res.ok && !hasClosureOps(g) && g.klass == "plain") {
      fsg_model_t *m1 = jsgf_build_fsg(jsgf, pub, gLmath, 1.0f);
      if (m1) {
        fsa::Fsa a = fsa::readFsg(m1, [](fsg_model_t *f, int wid) { return fsa::stripQuotes(fsg_model_word_str(f, wid)); });
        auto got = fsa::language(a, (int)k);
        WEval we(g, k);
        WLang wl = we.eval(g.rules[0].body);
        for (auto &kv : wl) {
          std::string s = decodeSentence(g, kv.first);
          auto it = got.find(s);
          if (it == got.end()) continue;
          double gotLn = logmath_log_to_ln(gLmath, (int)it->second);
          // one unit of quantisation per arc on the path; paths have at most 4*(len+1)*depth arcs
          double tol = 1.0001e-4 * (8.0 * (kv.first.size() + 2) * (depth + 2));
          if (kv.second > -1e29 && std::fabs(gotLn - kv.second) > tol) {
            res = Verdict::fail("weights-not-proportional", Msg() << "sentence '" << s << "': best path ln-probability " << gotLn << " in the FSG, " << kv.second << " from the written weights");
            break;
          }
        }
        ctx.label("oracle:weighted-language");
        fsg_model_free(m1);
      }
    }
  }
  if (fsg) fsg_model_free(fsg);
  jsgf_grammar_free(jsgf);

  // --- the one-call entry point must agree ---
  if (res.ok) {
    fsg_model_t *m = jsgf_read_string(text.c_str(), gLmath, lw);
    if (g.mustRefuse) {
      if (m) res = Verdict::fail("not-refused:" + g.klass + ":read_string", Msg() << "jsgf_read_string compiled a grammar of class " << g.klass);
    } else if (!m) {
      if (!g.mayRefuse) res = Verdict::fail("refused:" + g.klass + ":read_string", "jsgf_read_string refused a representable grammar");
    } else
      res = compare(m, "read_string");
    if (m) fsg_model_free(m);
  }

  for (auto &o : g.ops) ctx.label("op:" + o);
  ctx.label("k:" + std::to_string(k));
  ctx.nontrivial = g.mustRefuse || (want.size() >= 3 && g.ops.size() >= 2);
  return res;
}

void initJsgf() {
  err_set_loglevel(ERR_FATAL);
  gLmath = logmath_init(1.0001, 0, 1);
}

} // namespace

namespace pbt {
const PropDef kProps[] = {
    {"C05", propJsgf, false, 30000, initJsgf},
    {nullptr, nullptr, false, 0, nullptr},
};
}
