// C19 — log-domain addition is accurate, commutative and monotone.
// One case = one (base, shift) configuration, swept exhaustively over every
// table index and 64 entries beyond it, against a long-double reference.
#include "common/pbt.h"

extern "C" {
#include <soundswallower/logmath.h>
}

#include <cmath>
#include <vector>

using namespace pbt;

namespace {

Verdict propLogmath(Choices &c, Ctx &ctx) {
  double base;
  int shift;
  size_t cfg = c.weighted({3, 3, 2, 6, 2});
  if (cfg == 0) base = 1.0001, shift = 0;          // decoder default
  else if (cfg == 1) base = 1.0001, shift = 10;    // 8-bit scorer tables
  else if (cfg == 2) base = 1.0003, shift = 0;     // classic sphinx3 base
  else if (cfg == 4) {
    // aimed at the table-width switches: (log_b 2) >> shift lands on or next
    // to 256 / 65536
    static const long W[] = {256, 255, 257, 254, 258, 65536, 65535, 65537};
    long w = W[c.weighted({4, 4, 4, 2, 2, 1, 1, 1})];
    shift = (int)c.range(0, w > 1000 ? 2 : 10);
    long n = (w << shift) + (long)c.range(0, (1L << shift) - 1);
    base = std::exp(std::log(2.0) / ((double)n + 0.25));
  } else {
    // generated: base-1 log-uniform in [5e-5, 1], shift 0..12 with
    // base^(2^shift) kept representable
    double e = (double)c.range(0, 1000000) / 1000000.0;
    base = 1.0 + 5e-5 * std::pow(1.0 / 5e-5, e);
    shift = (int)c.range(0, 12);
    while (shift > 0 && std::log(base) * (double)(1 << shift) > 50.0) --shift;
  }
  std::ostringstream d;
  d.precision(17);
  d << "base=" << base << " shift=" << shift;
  logmath_t *lm = logmath_init(base, shift, 1);
  PBT_CHECK(lm != NULL, "init", "logmath_init(" << base << "," << shift << ") returned NULL");
  uint32 tsize = 0, width = 0, tshift = 0;
  logmath_get_table_shape(lm, &tsize, &width, &tshift);
  int zero = logmath_get_zero(lm);
  d << " table=" << tsize << "x" << width;
  const long double lb = logl((long double)base);
  const long double unit = ldexpl(1.0L, shift); // one shifted unit in base-b logs
  const long double log2u = logl(2.0L) / lb / unit;
  const long double tol = 1e-6L;

  // anchors: where the larger argument sits
  std::vector<int> anchors = {0, -1, -12345};
  anchors.push_back((int)c.range(-(1 << 27), 1 << 20));
  anchors.push_back((int)c.range(-200000, 200000));
  long dmax = (long)tsize + 64;
  Verdict res;
  long prevT = -1;
  for (long dd = 0; dd <= dmax && res.ok; ++dd) {
    // reference: log_b(1 + b^-(d*2^s)) / 2^s
    long double ref = log1pl(expl(-(long double)dd * unit * lb)) / lb / unit;
    long t = -1;
    for (int r : anchors) {
      long y = (long)r - dd;
      if (y <= (long)zero) continue; // below log-zero: identity path, tested separately
      int a = logmath_add(lm, r, (int)y);
      int b = logmath_add(lm, (int)y, r);
      if (a != b) {
        res = Verdict::fail("asymmetric", Msg() << d.str() << " add(" << r << "," << y << ")=" << a << " but swapped=" << b);
        break;
      }
      long tt = (long)a - r;
      if (t >= 0 && tt != t) {
        res = Verdict::fail("anchor-dependent", Msg() << d.str() << " d=" << dd << " increment " << tt << " at anchor " << r << " vs " << t);
        break;
      }
      t = tt;
    }
    if (!res.ok || t < 0) continue;
    if (fabsl((long double)t - ref) > 0.5L + tol)
      res = Verdict::fail((size_t)dd >= tsize ? "inaccurate-beyond-table" : "inaccurate", Msg() << d.str() << " d=" << dd << " add-max=" << t << " reference=" << (double)ref);
    else if (t < 0)
      res = Verdict::fail("below-max", Msg() << d.str() << " d=" << dd << " add < max");
    else if ((long double)t > log2u + 0.5L + tol)
      res = Verdict::fail("above-log2", Msg() << d.str() << " d=" << dd << " add-max=" << t << " log2=" << (double)log2u);
    else if (prevT >= 0 && t > prevT)
      res = Verdict::fail("non-monotone", Msg() << d.str() << " increment rises from " << prevT << " to " << t << " at d=" << dd);
    else if (prevT >= 0 && prevT - t > 1)
      res = Verdict::fail("non-monotone", Msg() << d.str() << " add(x,y+1) < add(x,y): increment falls from " << prevT << " to " << t << " at d=" << dd);
    prevT = t;
  }
  // far-apart and identity arguments
  if (res.ok) {
    for (int k = 0; k < 40 && res.ok; ++k) {
      int x = (int)c.range(zero + 1, 1 << 20);
      int y = (int)c.range(zero + 1, 1 << 20);
      int a = logmath_add(lm, x, y), b = logmath_add(lm, y, x);
      int mx = x > y ? x : y;
      long dd = std::labs((long)x - (long)y);
      long double ref = log1pl(expl(-(long double)dd * unit * lb)) / lb / unit;
      if (a != b) res = Verdict::fail("asymmetric", Msg() << d.str() << " far pair " << x << "," << y);
      else if (fabsl((long double)(a - mx) - ref) > 0.5L + tol)
        res = Verdict::fail("inaccurate", Msg() << d.str() << " far pair " << x << "," << y << " -> " << a);
      int below = zero - (int)c.range(0, 1000);
      if (res.ok && (logmath_add(lm, zero, y) != y || logmath_add(lm, x, zero) != x ||
                     logmath_add(lm, below, y) != y || logmath_add(lm, x, below) != x))
        res = Verdict::fail("zero-not-identity", Msg() << d.str() << " x=" << x << " y=" << y << " below=" << below);
    }
    if (res.ok && logmath_add(lm, zero, zero) > zero)
      res = Verdict::fail("zero-not-identity", Msg() << d.str() << " add(zero,zero)=" << logmath_add(lm, zero, zero));
  }
  // add_exact within one unit of the reference (where exp() does not underflow)
  if (res.ok) {
    for (int k = 0; k < 60 && res.ok; ++k) {
      long lim = (long)(600.0L / (lb * unit)); // b^(x*2^s) >= e^-600
      if (lim > (1 << 26)) lim = 1 << 26;
      if (lim < 2) break;
      int x = -(int)c.range(0, lim);
      int y = -(int)c.range(0, lim);
      int a = logmath_add_exact(lm, x, y);
      int mx = x > y ? x : y;
      long dd = std::labs((long)x - (long)y);
      long double ref = (long double)mx + log1pl(expl(-(long double)dd * unit * lb)) / lb / unit;
      if (fabsl((long double)a - ref) > 1.0L + tol)
        res = Verdict::fail("add-exact", Msg() << d.str() << " add_exact(" << x << "," << y << ")=" << a << " reference=" << (double)ref);
    }
  }
  // round trip p -> log -> exp: loses at most one unit, never increases p
  uint64_t rtDown = 0, rtKnownSkipped = 0;
  if (res.ok) {
    bool probeKnown = !isKnown("roundtrip-increase:p<1") || c.coin(5);
    for (int k = 0; k < 400 && res.ok; ++k) {
      long double p;
      size_t kind = c.weighted({5, 2, 2});
      if (kind == 0) {
        // log-uniform over [1e-300, 1e10], clipped to where the shifted
        // integer log stays above log-zero
        long double lo = -690.0L, hi = 23.0L;
        long double minln = ((long double)zero + 2) * unit * lb;
        if (lo < minln) lo = minln;
        p = expl(lo + (hi - lo) * (long double)c.range(0, 1 << 30) / (long double)(1 << 30));
      } else if (kind == 1) {
        // exact power of the base (in shifted units)
        long kmax = (long)(600.0L / (lb * unit));
        if (kmax > 100000) kmax = 100000;
        long kk = -(long)c.range(0, kmax > 0 ? kmax : 0);
        p = (long double)logmath_exp(lm, (int)kk);
      } else {
        p = (long double)c.range(1, 2000000) / 1000000.0L; // around 1
      }
      double pd = (double)p;
      if (!(pd > 0) || !std::isfinite(pd)) continue;
      int l = logmath_log(lm, pd);
      double back = logmath_exp(lm, l);
      long double trueLog = logl((long double)pd) / lb / unit; // in shifted units
      long double loss = trueLog - (long double)l;             // > 0: value decreased
      if (fabsl(loss) >= 1.0L + tol)
        res = Verdict::fail("roundtrip-loss", Msg() << d.str() << " p=" << pd << " log=" << l << " true=" << (double)trueLog);
      else if (back > pd * (1.0 + 1e-12) && loss < -tol) {
        if (pd < 1.0) {
          if (probeKnown)
            res = Verdict::fail("roundtrip-increase:p<1", Msg() << d.str() << " p=" << pd << " log=" << l << " exp(log(p))=" << back << " > p (true log " << (double)trueLog << ")");
          else
            ++rtKnownSkipped;
        } else
          res = Verdict::fail("roundtrip-increase:p>=1", Msg() << d.str() << " p=" << pd << " log=" << l << " exp(log(p))=" << back);
      } else
        ++rtDown;
    }
  }
  logmath_free(lm);
  ctx.label(cfg == 3 ? "config:generated" : cfg == 4 ? "config:width-boundary" : "config:library");
  ctx.label("width:" + std::to_string(width));
  ctx.label(shift == 0 ? "shift:0" : shift < 8 ? "shift:1-7" : "shift:8-12");
  ctx.labelIf(tsize > 256, "table>256");
  ctx.labelIf(rtKnownSkipped > 0, "roundtrip:known-class-not-asserted");
  d << " anchors=" << anchors[3] << "," << anchors[4] << " swept_d=0.." << dmax;
  ctx.desc = d.str();
  ctx.nontrivial = true; // every case sweeps a whole table
  return res;
}

} // namespace

namespace pbt {
const PropDef kProps[] = {
    {"C19", propLogmath, false, 60000, nullptr},
    {nullptr, nullptr, false, 0, nullptr},
};
}
