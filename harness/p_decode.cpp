// Decoding harness: one generated decode per case (grammar through one of the
// three front doors x audio recipe x search configuration x chunk plan x
// partial-query points), judged by the oracle of the property being run.
//   C01  results are sentences of the active grammar
//   C03  segmentation tiles the utterance, agrees with hypothesis and score
#include "common/decode.h"
#include "common/json.h"
#include "common/latalg.h"

extern "C" {
#include <soundswallower/alignment.h>
#include <soundswallower/ckd_alloc.h>
size_t __sanitizer_get_allocated_size(const volatile void *p);
}

#include <cstring>
#include <fstream>
#include <functional>

using namespace pbt;
using namespace dec;

namespace {

decoder_t *gDec[6] = {nullptr, nullptr, nullptr, nullptr, nullptr, nullptr}; // [5]: cmn=batch
int gFrate[6] = {100, 100, 100, 50, 105, 100}; // 105 does not divide the sample rate: the frame shift is rounded, the times are not
bool c_probeKnown = false; // set per case: assert listed known classes on a small fraction of cases
bool c_posteriorTwice = false; // C12: call lattice_posterior a second time before judging

struct Case {
  int decIdx = 0;
  SearchCfg sc;
  Gram gram;
  std::vector<int16_t> audio;
  std::string audioDesc;
  std::vector<Chunk> chunks;
  bool fullUtt = false;
  long preRot = -1; // >= 0: an earlier utterance of the same length (the audio rotated by this many samples) runs first
  int jsonLevel = 0;
  double jsonStart = 0;
  int reFrate = 0; // C14: frame rate set on the live decoder before the utterance (0 = left as initialised)
};

const std::vector<std::string> &hostileWords();
std::string fmt3(double x);

Case genCase(Choices &c, int queryPct, bool forJson = false, unsigned compallsenPct = 30) {
  Case k;
  k.decIdx = c.coin(compallsenPct) ? 1 : 0;
  if (forJson) {
    // one choice: the remainder picks the decoder with weights 2,1,5,2,2 as before; one quotient value in four has
    // the frame rate of that live decoder changed through its configuration and decoder_reinit_feat(d, NULL)
    uint32_t dr = c.raw();
    static const int W[] = {2, 1, 5, 2, 2};
    int r = (int)(dr % 12);
    k.decIdx = 0;
    while (r >= W[k.decIdx]) r -= W[k.decIdx++];
    if ((dr / 12) % 4 == 3) k.reFrate = (int[]){50, 80, 105, 125}[(dr / 48) % 4];
  }
  k.sc = genSearchCfg(c);
  if (forJson && k.decIdx >= 2) k.gram = genGrammar(c, 0, 3, 4, &hostileWords());
  else k.gram = genGrammar(c);
  if (forJson) {
    k.jsonLevel = (int)c.weighted({3, 2, 2});
    switch (c.weighted({3, 3, 1, 1})) {
    case 0: k.jsonStart = 0; break;
    case 1: k.jsonStart = (double)c.range(0, 999999) + (double)c.range(0, 999) / 1000.0; break;
    case 2: k.jsonStart = 1e-9; break;
    default: k.jsonStart = -(double)c.range(1, 5000) / 7.0; break;
    }
  }
  long N;
  switch (c.weighted({1, 1, 3, 8, 2})) {
  case 0: N = 0; break;
  case 1: N = c.range(1, 900); break;             // 0-4 frames
  case 2: N = c.range(900, 16000); break;         // up to 1 s
  case 3: N = c.range(16000, 44800); break;       // the length of the bundled recording
  default: N = c.range(44800, 60000); break;
  }
  // wide-open beams over a large expanded grammar cost seconds per second of audio:
  // keep those cases short (bounded by size, not by a time limit)
  if (k.sc.beam == 0 && k.gram.text.size() > 220 && N > 12000) N = 12000;
  k.audio = audio::recipe(c, (size_t)N, k.audioDesc, true, 12);
  k.fullUtt = c.coin(12);
  // a full-utterance block may be followed by a query before end_utt (end_utt then searches nothing new)
  if (k.fullUtt) k.chunks = {{(size_t)N, false, c.coin(60)}};
  else k.chunks = genChunks(c, (size_t)N, true, queryPct);
  if (c.coin(18)) k.preRot = N > 0 ? (long)c.range(0, (uint32_t)N - 1) : 0;
  return k;
}

std::string caseDesc(const Case &k) {
  std::ostringstream o;
  static const char *DN[] = {"default", "compallsen", "hostile-dict", "hostile-dict+frate50", "hostile-dict+frate105"};
  o << "dec=" << DN[k.decIdx] << (k.reFrate ? " frate-set-to-" + std::to_string(k.reFrate) + "-then-reinit_feat" : "") << (k.jsonLevel || k.jsonStart != 0 ? " json(level=" + std::to_string(k.jsonLevel) + ",start=" + fmt3(k.jsonStart) + ")" : "") << " " << k.sc.str() << " | " << k.gram.desc << " | N=" << k.audio.size() << " "
    << k.audioDesc << (k.fullUtt ? " full_utt" : "") << " chunks=" << chunksStr(k.chunks) << (k.preRot >= 0 ? " after-same-length-utterance(rot=" + std::to_string(k.preRot) + ")" : "");
  return o.str();
}


// ----------------------------------------------------- isolation inside a case
// Runs fn in a forked copy of this (pristine) process image and returns the
// string it produced; used by the differential properties so that both sides
// start from the same decoder state.  A crash of the copy ends this case too
// (its sanitizer report is already in our stderr file).
#include <sys/wait.h>
std::string runIsolated(const std::function<std::string()> &fn) {
  int pfd[2];
  if (pipe(pfd) != 0) _exit(98);
  fflush(stderr);
  pid_t pid = fork();
  if (pid == 0) {
    close(pfd[0]);
    std::string r = fn();
    size_t off = 0;
    while (off < r.size()) {
      ssize_t w = write(pfd[1], r.data() + off, r.size() - off);
      if (w <= 0) break;
      off += (size_t)w;
    }
    close(pfd[1]);
    _exit(0);
  }
  close(pfd[1]);
  std::string out;
  char buf[65536];
  ssize_t n;
  while ((n = read(pfd[0], buf, sizeof buf)) > 0) out.append(buf, (size_t)n);
  close(pfd[0]);
  int status = 0;
  waitpid(pid, &status, 0);
  if (!(WIFEXITED(status) && WEXITSTATUS(status) == 0)) _exit(97); // died: let the engine classify our stderr
  return out;
}

std::string alignmentDump(decoder_t *d) {
  alignment_t *al = decoder_alignment(d);
  if (!al) return "alignment=NULL";
  std::ostringstream o;
  o << "alignment=";
  for (alignment_iter_t *it = alignment_words(al); it; it = alignment_iter_next(it)) {
    int st = 0, du = 0;
    int sc = alignment_iter_seg(it, &st, &du);
    o << "{" << alignment_iter_name(it) << " " << st << "+" << du << " " << sc << ":";
    for (alignment_iter_t *p = alignment_iter_children(it); p; p = alignment_iter_next(p)) {
      sc = alignment_iter_seg(p, &st, &du);
      o << "(" << alignment_iter_name(p) << " " << st << "+" << du << " " << sc << ":";
      for (alignment_iter_t *q = alignment_iter_children(p); q; q = alignment_iter_next(q)) {
        sc = alignment_iter_seg(q, &st, &du);
        o << "[" << alignment_iter_name(q) << " " << st << "+" << du << " " << sc << "]";
      }
      o << ")";
    }
    o << "}";
  }
  return o.str();
}

// one utterance, returns the canonical record of the final result
struct UttPlan {
  std::vector<Chunk> chunks;
  bool useFloat = false;
  bool fullUtt = false;
  int queryMask = 0; // which partial queries are made at query points
  bool recordPartials = false; // partial results become part of the record
  bool queryUnrecorded = false; // partial results are asked for but not compared
};

std::string runUtterance(decoder_t *d, const std::vector<int16_t> &audio, const UttPlan &p, bool withAlignment, Ctx *ctx) {
  fsg_search_t *fs = (fsg_search_t *)d->search;
  std::ostringstream rec;
  if (decoder_start_utt(d) != 0) return "start_utt failed";
  size_t pos = 0;
  long returned = 0;
  for (auto &ch : p.chunks) {
    int r;
    if (p.useFloat) {
      float *blk = (float *)malloc(ch.len ? ch.len * sizeof(float) : 1);
      for (size_t i = 0; i < ch.len; ++i) blk[i] = (float)audio[pos + i] / 32768.0f;
      r = decoder_process_float32(d, blk, ch.len, ch.noSearch, p.fullUtt);
      free(blk);
    } else {
      int16_t *blk = (int16_t *)malloc(ch.len ? ch.len * 2 : 1);
      if (ch.len) memcpy(blk, audio.data() + pos, ch.len * 2);
      r = decoder_process_int16(d, blk, ch.len, ch.noSearch, p.fullUtt);
      free(blk);
    }
    pos += ch.len;
    if (r < 0) return "process returned " + std::to_string(r);
    returned += r;
    if (ch.queryAfter) {
      if (ctx) ctx->label("variant:partial-queries");
      if (p.recordPartials) rec << "partial@" << pos << ": " << observe(d).str() << " | ";
      else if ((p.queryMask & 1) || p.queryUnrecorded) observe(d);
      if (p.queryMask & 2) {
        lattice_t *dag = decoder_lattice(d);
        if (dag && (p.queryMask & 4)) {
          hyp_iter_t *it = decoder_nbest(d);
          for (int k = 0; it && k < 3; ++k) it = hyp_iter_next(it);
          if (it) hyp_iter_free(it);
        }
      }
      if (p.queryMask & 8) decoder_result_json(d, 0.0, (p.queryMask >> 5) % 3);
      if (p.queryMask & 16) {
        if (ctx) ctx->label("variant:partial-alignment(rewind)");
        decoder_alignment(d);
      }
    }
  }
  if (decoder_end_utt(d) != 0) return "end_utt failed";
  Obs o = observe(d);
  rec << o.str() << " frames_searched=" << fs->frame;
  if (withAlignment) rec << " " << alignmentDump(d);
  return rec.str();
}

// ------------------------------------------------------------------ oracles
Verdict oracleC01(decoder_t *d, const Case &k, const Obs &o, bool final, const fsa::Fsa &gplus, Ctx &ctx) {
  const char *when = final ? "final" : "partial";
  if (!o.hasSeg) {
    // "no hypothesis" is allowed; but a hypothesis string without segmentation is inconsistent
    PBT_CHECK(!o.hasHyp, "hyp-without-segmentation", when << ": decoder_hyp='" << o.hyp << "' but decoder_seg_iter is NULL");
    return Verdict::pass();
  }
  std::vector<std::string> W = project(d, o.segs);
  // hypothesis string == projection of the segmentation
  if (W.empty()) PBT_CHECK(!o.hasHyp, "hyp-vs-segmentation", when << ": segmentation has no real word but hyp='" << o.hyp << "'");
  else
    PBT_CHECK(o.hasHyp && o.hyp == join(W), "hyp-vs-segmentation", when << ": hyp=" << (o.hasHyp ? "'" + o.hyp + "'" : "NULL") << " but segmentation words are '" << join(W) << "'");
  // segment labels (fillers, alternates, null markers included) are a path of the grammar the search holds
  std::vector<std::string> labels;
  for (auto &s : o.segs) labels.push_back(s.word);
  PBT_CHECK(fsa::accepts(gplus, labels, !final), final ? "segmentation-not-a-grammar-path" : "partial-not-a-grammar-prefix",
            when << ": segment labels '" << join(labels) << "' are not a path of the active grammar from its start state" << (final ? " to its final state" : ""));
  // real words are a sentence of the grammar as the user gave it
  if (final) {
    PBT_CHECK(fsa::accepts(k.gram.own, W, false), "hypothesis-not-a-sentence", "final: '" << join(W) << "' is not accepted by the grammar: " << k.gram.desc);
    if (k.gram.kind == Gram::ALIGN) PBT_CHECK(W == k.gram.alignWords, "alignment-text-mismatch", "final: '" << join(W) << "' differs from the alignment text");
  } else
    PBT_CHECK(fsa::accepts(k.gram.own, W, true), "partial-not-a-sentence-prefix", "partial: '" << join(W) << "' is not a prefix path of the grammar: " << k.gram.desc);
  (void)ctx;
  return Verdict::pass();
}

Verdict oracleC03(decoder_t *d, const Obs &o, bool final, long T, Ctx &ctx) {
  const char *when = final ? "final" : "partial";
  if (!o.hasSeg) return Verdict::pass();
  long cur = 0;
  long sum = 0;
  bool sawNull = false, sawFiller = false;
  for (size_t i = 0; i < o.segs.size(); ++i) {
    auto &s = o.segs[i];
    if (s.word == "(NULL)") {
      sawNull = true;
      ctx.labelIf(i == 0, "first-segment-null");
      PBT_CHECK(s.sf == cur - 1 && s.ef == cur - 1, "null-segment-moves-time", when << ": null segment " << i << " spans " << s.sf << "-" << s.ef << " at cursor " << cur << " in " << o.str());
    } else {
      if (isFillerWord(d, s.word)) sawFiller = true;
      PBT_CHECK(s.sf == cur, i == 0 ? "first-segment-not-at-0" : "segments-not-contiguous", when << ": segment " << i << " (" << s.word << ") starts at " << s.sf << ", expected " << cur << " in " << o.str());
      PBT_CHECK(s.ef >= s.sf, "empty-word-segment", when << ": segment " << i << " (" << s.word << ") spans " << s.sf << "-" << s.ef);
      cur = s.ef + 1;
    }
    sum += (long)s.ascr + (long)s.lscr;
  }
  PBT_CHECK(cur <= T, "segment-beyond-frames-searched", when << ": segmentation ends at frame " << cur - 1 << " but only " << T << " frames were searched");
  std::vector<std::string> W = project(d, o.segs);
  if (W.empty()) PBT_CHECK(!o.hasHyp, "hyp-vs-segmentation", when << ": no real word in segmentation but hyp='" << o.hyp << "'");
  else {
    PBT_CHECK(o.hasHyp && o.hyp == join(W), "hyp-vs-segmentation", when << ": hyp=" << (o.hasHyp ? "'" + o.hyp + "'" : "NULL") << " vs segmentation '" << join(W) << "'");
    PBT_CHECK(sum == (long)o.score, "segment-scores-do-not-sum", when << ": sum of ascr+lscr = " << sum << " but path score = " << o.score << " in " << o.str());
  }
  ctx.labelIf(sawNull, "has-null-segment");
  ctx.labelIf(sawFiller, "has-filler-segment");
  ctx.labelIf(cur < T, "result-ends-before-last-frame");
  if (o.segs.size() >= 3 && (sawNull || sawFiller)) ctx.nontrivial = true;
  return Verdict::pass();
}


// grammar simulation over the augmented grammar (null arcs = epsilon)
struct GSim {
  fsa::Enumerator e;
  explicit GSim(const fsa::Fsa &a) : e(a, 0) {}
  typedef std::vector<int> SS;
  SS fromFront(const fsa::Enumerator::Front &f) {
    SS s;
    for (auto &kv : f) s.push_back(kv.first);
    return s;
  }
  SS initial() {
    fsa::Enumerator::Front f;
    f[e.a.start] = 0;
    e.closure(f);
    return fromFront(f);
  }
  SS step(const SS &s, const std::string &w) {
    fsa::Enumerator::Front nx;
    for (int st : s)
      for (auto arc : e.out[st])
        if (arc->label == w) nx[arc->to] = 0;
    e.closure(nx);
    return fromFront(nx);
  }
};

// find a chain of linked lattice nodes matching (word, sf, ef) triples
bool findChain(const lat::Lat &L, const std::vector<Seg> &segs, size_t i, int node, std::vector<int> &chain) {
  if (i == segs.size()) return true;
  for (size_t n = 0; n < L.nodes.size(); ++n) {
    const lat::Node &x = L.nodes[n];
    if (x.word != segs[i].word || x.sf != segs[i].sf) continue;
    // synthetic <s>/</s> nodes are zero-length markers: no end-frame range to honour
    if (!lat::synthetic(L, (int)n) && (segs[i].ef < x.fef || segs[i].ef > x.lef)) continue;
    if (node >= 0) {
      bool linked = false;
      for (int li : L.nodes[node].out)
        if (L.links[li].to == (int)n) linked = true;
      if (!linked) continue;
    }
    chain.push_back((int)n);
    if (findChain(L, segs, i + 1, (int)n, chain)) return true;
    chain.pop_back();
  }
  return false;
}

// small lattices are shown whole in failure messages
std::string latDump(const lat::Lat &L) {
  if (L.nodes.size() > 14) return "";
  std::ostringstream o;
  o << "\n lattice:";
  for (size_t n = 0; n < L.nodes.size(); ++n) {
    o << " [" << L.nodes[n].word << "@" << L.nodes[n].sf << " ef " << L.nodes[n].fef << ".." << L.nodes[n].lef << ((int)n == L.start ? " START" : "") << ((int)n == L.end ? " END" : "") << " ->";
    for (int li : L.nodes[n].out) o << " " << L.nodes[L.links[li].to].word << "@" << L.nodes[L.links[li].to].sf << "(ef " << L.links[li].ef << ")";
    o << "]";
  }
  return o.str();
}

Verdict oracleC11(decoder_t *d, lattice_t *dag, const Obs &o, const fsa::Fsa &gEps, bool final, Ctx &ctx) {
  const char *when = final ? "final" : "partial";
  lat::Lat L = lat::read(dag);
  PBT_CHECK(L.problem.empty(), "lattice-structure", when << ": " << L.problem);
  PBT_CHECK(L.start >= 0 && L.end >= 0, "no-start-or-end-node", when << ": lattice without a start or end node among its nodes");
  bool cyclic = false;
  std::vector<int> order = lat::topo(L, &cyclic);
  PBT_CHECK(!cyclic, "lattice-cycle", when << ": the lattice has a cycle");
  std::vector<bool> fw = lat::reach(L, L.start, true), bw = lat::reach(L, L.end, false);
  for (size_t n = 0; n < L.nodes.size(); ++n) {
    PBT_CHECK(fw[n], "node-not-reachable-from-start", when << ": node " << L.nodes[n].word << "@" << L.nodes[n].sf << " is not reachable from the start node " << L.nodes[L.start].word << "@" << L.nodes[L.start].sf << " (" << L.nodes.size() << " nodes)");
    PBT_CHECK(bw[n], "node-cannot-reach-end", when << ": node " << L.nodes[n].word << "@" << L.nodes[n].sf << " does not reach the end node");
  }
  PBT_CHECK(L.nframes == ((fsg_search_t *)d->search)->frame, "lattice-frame-count", when << ": lattice covers " << L.nframes << " frames, the search has " << ((fsg_search_t *)d->search)->frame);
  for (auto &l : L.links) {
    const lat::Node &u = L.nodes[l.from], &v = L.nodes[l.to];
    if (lat::synthetic(L, l.from)) {
      PBT_CHECK(v.sf == 0, "link-adjacency", when << ": synthetic start links to " << v.word << "@" << v.sf);
      continue;
    }
    if (lat::synthetic(L, l.to)) {
      // the synthetic end starts in the frame after the last exits (the last frame of the utterance, or earlier when
      // the results end before it): every word instance linked to it ends exactly one frame before
      PBT_CHECK(u.lef + 1 == v.sf && v.sf <= L.nframes, "link-adjacency", when << ": " << u.word << "@" << u.sf << " (last end frame " << u.lef << ") links to the synthetic end at frame " << v.sf << " of a " << L.nframes << "-frame lattice");
      continue;
    }
    PBT_CHECK(v.sf == l.ef + 1, "link-adjacency", when << ": link " << u.word << "@" << u.sf << " -> " << v.word << "@" << v.sf << " ends at frame " << l.ef);
    PBT_CHECK(u.fef <= l.ef && l.ef <= u.lef, "link-adjacency", when << ": link end frame " << l.ef << " outside the end-frame range " << u.fef << ".." << u.lef << " of " << u.word << "@" << u.sf);
    PBT_CHECK(0 <= u.sf && u.sf <= l.ef && l.ef < L.nframes, "link-adjacency", when << ": word instance " << u.word << " " << u.sf << "-" << l.ef << " outside the utterance (" << L.nframes << " frames)");
  }
  // every path is a grammar path: propagate (node, state set)
  {
    GSim g(gEps);
    std::vector<std::set<GSim::SS>> sets(L.nodes.size());
    GSim::SS s0 = g.initial();
    if (lat::synthetic(L, L.start)) sets[L.start].insert(s0);
    else {
      GSim::SS s1 = g.step(s0, L.nodes[L.start].word);
      PBT_CHECK(!s1.empty(), "lattice-path-not-in-grammar", when << ": start node word '" << L.nodes[L.start].word << "' does not leave the grammar's start state");
      sets[L.start].insert(s1);
    }
    size_t pairs = 1;
    bool capped = false;
    for (int n : order) {
      if (capped) break;
      for (int li : L.nodes[n].out) {
        int m = L.links[li].to;
        for (auto &S : sets[n]) {
          GSim::SS S2 = lat::synthetic(L, m) ? S : g.step(S, L.nodes[m].word);
          PBT_CHECK(!S2.empty(), "lattice-path-not-in-grammar", when << ": a lattice path reaches " << L.nodes[n].word << "@" << L.nodes[n].sf << " and continues with '" << L.nodes[m].word << "'@" << L.nodes[m].sf << ", which no grammar path from the start state allows");
          if (sets[m].insert(S2).second && ++pairs > 50000) capped = true;
        }
      }
    }
    ctx.labelIf(capped, "grammar-simulation:capped");
  }
  // the first-best segmentation appears as a path
  if (o.hasSeg) {
    std::vector<Seg> real;
    for (auto &s : o.segs)
      if (s.word != "(NULL)") real.push_back(s);
    if (!real.empty()) {
      std::vector<int> chain;
      if (!findChain(L, real, 0, -1, chain)) {
        // classify: which part of the first-best path is missing
        std::string cls = "first-best-not-in-lattice";
        std::vector<Seg> head(real.begin(), real.end() - 1);
        chain.clear();
        if (real.size() == 1) cls += ":single-segment";
        else if (findChain(L, head, 0, -1, chain)) cls += ":last-segment-missing";
        if (!isKnown(cls) || c_probeKnown)
          return Verdict::fail(cls, Msg() << when << ": the first-best segmentation " << o.str() << " is not a chain of linked lattice nodes (" << L.nodes.size() << " nodes, end node " << L.nodes[L.end].word << "@" << L.nodes[L.end].sf << ")" << latDump(L));
        ctx.label("known-class-not-asserted:" + cls);
      }
      ctx.labelIf(real.size() == 1, "first-best-single-segment");
    }
  }
  PBT_CHECK(decoder_lattice(d) == dag, "lattice-not-cached", when << ": asking again without new audio returned a different lattice object");
  double paths = lat::countPaths(L, order);
  ctx.labelIf(lat::synthetic(L, L.start), "synthetic-start");
  ctx.labelIf(lat::synthetic(L, L.end), "synthetic-end");
  if (L.nodes.size() >= 4 && paths >= 2) ctx.nontrivial = true;
  return Verdict::pass();
}

std::string dumpLat(const lat::Lat &L) {
  std::ostringstream o;
  if (L.nodes.size() > 40) return "(" + std::to_string(L.nodes.size()) + " nodes)";
  for (size_t i = 0; i < L.nodes.size(); ++i) {
    const lat::Node &n = L.nodes[i];
    o << "\n  " << (int(i) == L.start ? "START " : int(i) == L.end ? "END " : "") << n.word << "@" << n.sf << " ef " << n.fef << ".." << n.lef << " ->";
    for (int li : n.out) o << " " << L.nodes[L.links[li].to].word << "@" << L.nodes[L.links[li].to].sf << "(" << L.links[li].ascr << ",ef" << L.links[li].ef << ")";
  }
  return o.str();
}

// order-independent fingerprint of a lattice: its nodes and links as sorted text
size_t latFingerprint(const lat::Lat &L) {
  std::vector<std::string> items;
  for (const auto &n : L.nodes) items.push_back("N " + n.word + "@" + std::to_string(n.sf) + " " + std::to_string(n.fef) + ".." + std::to_string(n.lef));
  for (const auto &l : L.links) items.push_back("L " + L.nodes[l.from].word + "@" + std::to_string(L.nodes[l.from].sf) + ">" + L.nodes[l.to].word + "@" + std::to_string(L.nodes[l.to].sf) + " " + std::to_string(l.ascr) + " " + std::to_string(l.ef));
  std::sort(items.begin(), items.end());
  std::string all;
  for (auto &i : items) all += i + "\n";
  return std::hash<std::string>()(all) % 1000000;
}

long double lse(long double a, long double b, long double lnb) {
  // log_b(b^a + b^b)
  if (a < b) std::swap(a, b);
  return a + log1pl(expl((b - a) * lnb)) / lnb;
}

Verdict oracleC12(decoder_t *d, lattice_t *dag, bool final, Ctx &ctx) {
  const char *when = final ? "final" : "partial";
  fsg_search_t *fs = (fsg_search_t *)d->search;
  float ascale = fs->ascale;
  logmath_t *lm = lattice_get_logmath(dag);
  const long double lnb = logl((long double)logmath_get_base(lm));
  const int zero = logmath_get_zero(lm);
  lat::Lat L = lat::read(dag);
  if (!L.problem.empty() || L.start < 0 || L.end < 0) return Verdict::pass(); // judged by C11
  bool cyclic = false;
  std::vector<int> order = lat::topo(L, &cyclic);
  if (cyclic) return Verdict::pass();
  std::vector<bool> fw = lat::reach(L, L.start, true), bw = lat::reach(L, L.end, false);
  for (size_t n = 0; n < L.nodes.size(); ++n)
    if (!fw[n] || !bw[n]) {
      ctx.label("skipped:malformed-lattice(C11)");
      return Verdict::pass();
    }
  // --- independent longest path ---
  const long NEGINF = -(1L << 60);
  std::vector<long> best(L.nodes.size(), NEGINF);
  best[L.start] = 0;
  for (int n : order)
    if (best[n] > NEGINF)
      for (int li : L.nodes[n].out) best[L.links[li].to] = std::max(best[L.links[li].to], best[n] + L.links[li].ascr);
  long B = best[L.end];
  // --- best path of the library ---
  latlink_t *bl = lattice_bestpath(dag, ascale);
  if (L.start == L.end || L.nodes[L.end].in.empty()) {
    ctx.label("lattice:single-node");
    return Verdict::pass();
  }
  PBT_CHECK(bl != NULL, "bestpath-null", when << ": lattice_bestpath returned NULL on a lattice with start-to-end paths");
  PBT_CHECK(bl->to == dag->end, "bestpath-not-into-end", when << ": best link does not enter the end node");
  PBT_CHECK((long)bl->path_scr == B, "bestpath-not-optimal", when << ": lattice_bestpath score " << bl->path_scr << ", independent longest path " << B);
  {
    long sum = 0;
    int guard = 0;
    latlink_t *l = bl;
    for (; l; l = l->best_prev) {
      sum += l->ascr;
      if (l->best_prev) PBT_CHECK(l->best_prev->to == l->from, "bestpath-chain-broken", when << ": best_prev chain is not a connected path");
      else
        PBT_CHECK(l->from == dag->start, "bestpath-chain-broken", when << ": best path does not begin at the start node");
      PBT_CHECK(++guard < 100000, "bestpath-chain-broken", "best_prev chain does not terminate");
    }
    PBT_CHECK(sum == B, "bestpath-not-optimal", when << ": scores along the best_prev chain sum to " << sum << ", path_scr says " << B);
  }
  // --- posteriors ---
  int32 post = lattice_posterior(dag, ascale);
  // asking again (nothing else in between) must leave a lattice that still satisfies every clause below
  if (c_posteriorTwice) {
    post = lattice_posterior(dag, ascale);
    ctx.label("posterior-computed-twice");
  }
  {
    size_t nl = L.links.size();
    std::vector<long double> t(nl), a(nl), b(nl), ea(nl, 0), eb(nl, 0);
    for (size_t i = 0; i < nl; ++i) t[i] = (long double)(int32)(((int32)L.links[i].ascr << SENSCR_SHIFT) * ascale);
    // forward in topological order of source nodes
    for (int n : order) {
      for (int li : L.nodes[n].out) {
        if (n == L.start) {
          a[li] = t[li];
          ea[li] = 0;
        } else {
          bool first = true;
          long double acc = 0, e = 0;
          for (int pi : L.nodes[n].in) {
            acc = first ? a[pi] : lse(acc, a[pi], lnb);
            e = std::max(e, ea[pi]);
            first = false;
          }
          a[li] = acc + t[li];
          ea[li] = e + 0.5L * (long double)L.nodes[n].in.size();
        }
      }
    }
    long double normRef = 0, en = 0;
    {
      bool first = true;
      for (int pi : L.nodes[L.end].in) {
        normRef = first ? a[pi] : lse(normRef, a[pi], lnb);
        en = std::max(en, ea[pi]);
        first = false;
      }
      en += 0.5L * (long double)L.nodes[L.end].in.size();
    }
    for (auto it = order.rbegin(); it != order.rend(); ++it) {
      int n = *it;
      for (int li : L.nodes[n].in) { // links ending in n
        if (n == L.end) {
          b[li] = 0;
          eb[li] = 0;
        } else {
          bool first = true;
          long double acc = 0, e = 0;
          for (int xi : L.nodes[n].out) {
            long double v = b[xi] + t[xi];
            acc = first ? v : lse(acc, v, lnb);
            e = std::max(e, eb[xi]);
            first = false;
          }
          b[li] = acc;
          eb[li] = e + 0.5L * (long double)L.nodes[n].out.size();
        }
      }
    }
    const long double tol = 1e-6L;
    PBT_CHECK(fabsl((long double)dag->norm - normRef) <= en + tol, "forward-total", when << ": normaliser " << dag->norm << ", independent forward total " << (double)normRef << " (bound " << (double)en << ")");
    long double back = 0, ebk = 0;
    {
      bool first = true;
      for (int xi : L.nodes[L.start].out) {
        long double v = (long double)L.links[xi].p->beta + t[xi];
        back = first ? v : lse(back, v, lnb);
        ebk = std::max(ebk, eb[xi]);
        first = false;
      }
      ebk += 0.5L * (long double)L.nodes[L.start].out.size();
    }
    PBT_CHECK(fabsl(back - (long double)dag->norm) <= en + ebk + tol, "forward-backward-disagree", when << ": backward total " << (double)back << " vs forward total " << dag->norm << " (bound " << (double)(en + ebk) << ")");
    for (size_t i = 0; i < nl; ++i) {
      latlink_t *l = L.links[i].p;
      PBT_CHECK(fabsl((long double)l->alpha - a[i]) <= ea[i] + tol, "alpha-inaccurate", when << ": link alpha " << l->alpha << " vs reference " << (double)a[i] << " (bound " << (double)ea[i] << ")");
      PBT_CHECK(fabsl((long double)l->beta - b[i]) <= eb[i] + tol, "beta-inaccurate", when << ": link beta " << l->beta << " vs reference " << (double)b[i] << " (bound " << (double)eb[i] << ")");
      int32 ascrOut = 0;
      long p = ps_latlink_prob(dag, l, &ascrOut);
      PBT_CHECK((long double)p <= ea[i] + eb[i] + en + tol, "posterior-above-one", when << ": link posterior " << p << " > 0 beyond the rounding bound " << (double)(ea[i] + eb[i] + en));
      PBT_CHECK(p >= (long)zero * 3, "posterior-below-zero", when << ": link posterior " << p << " below log-zero");
    }
    PBT_CHECK((long double)post <= en + tol, "best-path-posterior-above-one", when << ": lattice_posterior returned " << post << " > 0 beyond the rounding bound " << (double)en);
  }
  // --- N-best ---
  double npaths = lat::countPaths(L, order);
  std::map<std::string, std::set<long>> pathScores; // real-word sequence -> scores of start->end paths
  bool enumerated = false;
  if (npaths <= 20000) {
    enumerated = true;
    // DFS enumeration
    struct Fr {
      int node;
      size_t next;
      long score;
    };
    std::vector<Fr> st{{L.start, 0, 0}};
    std::vector<int> pathNodes{L.start};
    while (!st.empty()) {
      Fr &f = st.back();
      if (f.node == L.end) {
        std::string w;
        for (int n : pathNodes)
          if (!isFillerWord(d, L.nodes[n].base)) w += (w.empty() ? "" : " ") + L.nodes[n].base;
        pathScores[w].insert(f.score);
        st.pop_back();
        pathNodes.pop_back();
        continue;
      }
      if (f.next >= L.nodes[f.node].out.size()) {
        st.pop_back();
        pathNodes.pop_back();
        continue;
      }
      int li = L.nodes[f.node].out[f.next++];
      long sc = f.score + L.links[li].ascr;
      int to = L.links[li].to;
      st.push_back({to, 0, sc});
      pathNodes.push_back(to);
    }
  }
  {
    hyp_iter_t *it = decoder_nbest(d);
    long prev = 0;
    int k = 0;
    std::set<std::string> distinct;
    // dense lattices are walked far beyond the search's internal agenda limit (500 partial paths); beyond the
    // first 200 hypotheses only the order and the membership clauses are judged (the chain search is the costly one)
    const int deep = npaths >= 3000 ? 6000 : 200;
    for (; it && k < deep; it = hyp_iter_next(it), ++k) {
      int32 sc = 0;
      const char *h = hyp_iter_hyp(it, &sc);
      std::string hs = h ? h : "";
      // The statement orders N-best scores and ties hypotheses to lattice paths by word
      // sequence; it does not say that an N-best score is a start-to-end path score (A*
      // seeds every node starting at frame 0, so it also reports paths that skip the
      // synthetic start link).  Such cases are counted, not judged.
      if (k == 0) {
        ctx.labelIf((long)sc > B, "nbest:first-scores-above-best-start-end-path");
        ctx.labelIf((long)sc == B, "nbest:first-equals-best-path");
      }
      if (k > 0)
        PBT_CHECK((long)sc <= prev, "nbest-order", when << ": N-best hypothesis " << k << " scores " << sc << " after " << prev);
      prev = sc;
      distinct.insert(hs);
      if (enumerated) {
        auto ps = pathScores.find(hs);
        PBT_CHECK(ps != pathScores.end(), "nbest-not-a-lattice-path", when << ": N-best hypothesis '" << hs << "' is not the word sequence of any start-to-end path (" << pathScores.size() << " word sequences over " << npaths << " paths, e.g. '" << (pathScores.empty() ? std::string("-") : pathScores.begin()->first) << "'); lattice: " << dumpLat(L));
        ctx.labelIf(ps->second.count((long)sc) == 0, "nbest:score-is-not-a-start-end-path-score");
      }
      if (k >= 200) continue;
      // its segmentation is a chain of linked nodes
      seg_iter_t *si = hyp_iter_seg(it);
      std::vector<Seg> segs;
      for (; si; si = seg_iter_next(si)) {
        Seg s;
        s.word = seg_iter_word(si);
        seg_iter_frames(si, &s.sf, &s.ef);
        segs.push_back(s);
      }
      std::vector<int> chain;
      PBT_CHECK(findChain(L, segs, 0, -1, chain), "nbest-segmentation-not-in-lattice", when << ": segmentation of N-best hypothesis '" << hs << "' is not a chain of linked lattice nodes");
    }
    if (it) {
      hyp_iter_free(it);
      ctx.label(deep > 200 ? "nbest:stopped-at-6000" : "nbest:stopped-at-200");
    }
    ctx.labelIf(k > 600, "nbest:walked>600");
    ctx.labelIf(k > 1500, "nbest:walked>1500");
    ctx.labelIf(k >= 2, "nbest>=2");
    ctx.labelIf(!enumerated, "paths>20000(not-enumerated)");
    if (distinct.size() >= 2) ctx.nontrivial = true;
    PBT_CHECK(k >= 1, "nbest-empty", when << ": decoder_nbest produced nothing on a lattice with " << npaths << " paths");
  }
  return Verdict::pass();
}


Verdict oracleC14(decoder_t *d, int frate, const Obs &o, double start, int level, bool final, Ctx &ctx);
Verdict oracleC04(decoder_t *d, const Obs &o, bool final, Ctx &ctx);
std::string fmt3(double x);

Verdict judge(decoder_t *d, const Case &k, const Obs &o, bool final, long T, const fsa::Fsa &gplus, const fsa::Fsa &gEps, int which, Ctx &ctx) {
  switch (which) {
  case 0: return oracleC01(d, k, o, final, gplus, ctx);
  case 1: return oracleC03(d, o, final, T, ctx);
  case 5: return oracleC04(d, o, final, ctx);
  case 4: return oracleC14(d, gFrate[k.decIdx], o, k.jsonStart, k.jsonLevel, final, ctx);
  default: {
    lattice_t *dag = decoder_lattice(d);
    if (!dag) {
      ctx.label(final ? "lattice:NULL(final)" : "lattice:NULL(partial)");
      return Verdict::pass();
    }
    ctx.label(final ? "lattice:final" : "lattice:partial");
    return which == 2 ? oracleC11(d, dag, o, gEps, final, ctx) : oracleC12(d, dag, final, ctx);
  }
  }
}


// ------------------------------------------------------------------ C14: JSON
std::string fmt3(double x) {
  char b[64];
  snprintf(b, sizeof b, "%.3f", x);
  return b;
}

const std::vector<std::string> &hostileWords() {
  static std::vector<std::string> v = {"say\"x", "back\\slash", "q\"\\\"uote", "caf\xc3\xa9", "\xe6\x97\xa5\xe6\x9c\xac", std::string(200, 'x'),
                                       "a/b", "ctl\x01x", "del\x7fx", "{brace}", "'apos", "\\", "\"", "\\n", "tab\\t"};
  return v;
}

Verdict checkEntry(const json::Value &v, const std::string &b, const std::string &dd, const std::string &p, const std::string &t, const std::string &where) {
  PBT_CHECK(v.t == json::Value::OBJ, "json-structure", where << " is not an object");
  const json::Value *jb = v.get("b"), *jd = v.get("d"), *jp = v.get("p"), *jt = v.get("t");
  PBT_CHECK(jb && jd && jp && jt, "json-structure", where << " lacks one of b,d,p,t");
  PBT_CHECK(jb->t == json::Value::NUM && jd->t == json::Value::NUM && jp->t == json::Value::NUM && jt->t == json::Value::STR, "json-structure", where << ": wrong field types");
  PBT_CHECK(jt->s == t, "json-text-field", where << ": t='" << jt->s << "' but the iterator says '" << t << "'");
  PBT_CHECK(jb->s == b, "json-start-field", where << ": b=" << jb->s << " but frame index / frame rate + offset gives " << b);
  PBT_CHECK(jd->s == dd, "json-duration-field", where << ": d=" << jd->s << " expected " << dd);
  PBT_CHECK(jp->s == p, "json-probability-field", where << ": p=" << jp->s << " expected " << p);
  return Verdict::pass();
}

Verdict oracleC14(decoder_t *d, int frate, const Obs &o, double start, int level, bool final, Ctx &ctx) {
  const char *when = final ? "final" : "partial";
  // (the JSON call may recompute the alignment and free an earlier object: take the text first,
  //  then ask for the alignment to compare with)
  const char *js0 = decoder_result_json(d, start, level);
  std::string jsCopy = js0 ? js0 : "";
  size_t alloc0 = js0 ? __sanitizer_get_allocated_size(d->json_result) : 0;
  alignment_t *al = level > 0 ? decoder_alignment(d) : NULL;
  const char *js = js0 ? jsCopy.c_str() : NULL;
  if (level > 0 && al == NULL) {
    PBT_CHECK(js == NULL, "json-without-alignment", when << ": level " << level << " JSON returned although decoder_alignment is NULL");
    ctx.label("json:NULL(no-alignment)");
    return Verdict::pass();
  }
  PBT_CHECK(js != NULL, "json-null", when << ": decoder_result_json returned NULL (level " << level << ")");
  std::string text(js);
  size_t alloc = alloc0;
  PBT_CHECK(text.size() + 1 == alloc, "json-buffer-length", when << ": JSON is " << text.size() << " bytes + NUL in a buffer of " << alloc);
  PBT_CHECK(!text.empty() && text.back() == '\n', "json-newline", when << ": JSON line does not end in a newline");
  PBT_CHECK(text.find('\n') == text.size() - 1, "json-newline", when << ": JSON contains a newline before its end: " << text);
  std::string body = text.substr(0, text.size() - 1);
  json::Parser ps(body);
  json::Value root;
  bool ok = ps.value(root) && (ps.ws(), ps.i == body.size());
  if (!ok) {
    bool hostile = false;
    for (auto &s : o.segs)
      for (auto &h : hostileWords())
        if (s.word == h && (h.find('"') != std::string::npos || h.find('\\') != std::string::npos || h.find('\x01') != std::string::npos)) hostile = true;
    return Verdict::fail(hostile ? "json-invalid:unescaped-string" : "json-invalid", Msg() << when << ": not valid JSON (" << (ps.err.empty() ? "trailing data" : ps.err) << "): " << body);
  }
  logmath_t *lm = decoder_logmath(d);
  std::string hyp = o.hasHyp ? o.hyp : "";
  Verdict v = checkEntry(root, fmt3(start), fmt3((double)o.nFrames / frate), fmt3(logmath_exp(lm, decoder_prob(d))), hyp, "top level");
  if (!v.ok) return v;
  const json::Value *w = root.get("w");
  PBT_CHECK(w && w->t == json::Value::ARR, "json-structure", "top level lacks the w list");
  if (level == 0) {
    PBT_CHECK(w->arr.size() == o.segs.size(), "json-word-count", when << ": " << w->arr.size() << " entries in w, " << o.segs.size() << " segments from the iterator");
    for (size_t i = 0; i < o.segs.size(); ++i) {
      auto &s = o.segs[i];
      v = checkEntry(w->arr[i], fmt3(start + (double)s.sf / frate), fmt3((double)(s.ef + 1 - s.sf) / frate), fmt3(logmath_exp(lm, s.prob)), s.word, "w[" + std::to_string(i) + "]");
      if (!v.ok) return v;
      PBT_CHECK(w->arr[i].get("w") == nullptr, "json-structure", "level 0 entry has a nested list");
    }
  } else {
    size_t wi = 0;
    for (alignment_iter_t *it = alignment_words(al); it; it = alignment_iter_next(it), ++wi) {
      PBT_CHECK(wi < w->arr.size(), "json-word-count", when << ": fewer word entries than alignment words");
      int st = 0, du = 0;
      int sc = alignment_iter_seg(it, &st, &du);
      std::string wh = "w[" + std::to_string(wi) + "]";
      v = checkEntry(w->arr[wi], fmt3(start + (double)st / frate), fmt3((double)du / frate), fmt3(logmath_exp(lm, sc)), alignment_iter_name(it), wh);
      if (!v.ok) return v;
      const json::Value *pw = w->arr[wi].get("w");
      PBT_CHECK(pw && pw->t == json::Value::ARR, "json-structure", wh << " lacks the phone list");
      size_t pi = 0;
      for (alignment_iter_t *pit = alignment_iter_children(it); pit; pit = alignment_iter_next(pit), ++pi) {
        PBT_CHECK(pi < pw->arr.size(), "json-word-count", wh << ": fewer phone entries than alignment phones");
        sc = alignment_iter_seg(pit, &st, &du);
        std::string ph = wh + ".w[" + std::to_string(pi) + "]";
        v = checkEntry(pw->arr[pi], fmt3(start + (double)st / frate), fmt3((double)du / frate), fmt3(logmath_exp(lm, sc)), alignment_iter_name(pit), ph);
        if (!v.ok) return v;
        const json::Value *sw = pw->arr[pi].get("w");
        if (level == 1) PBT_CHECK(sw == nullptr, "json-structure", ph << " has a state list at level 1");
        else {
          PBT_CHECK(sw && sw->t == json::Value::ARR, "json-structure", ph << " lacks the state list at level 2");
          size_t si = 0;
          for (alignment_iter_t *sit = alignment_iter_children(pit); sit; sit = alignment_iter_next(sit), ++si) {
            PBT_CHECK(si < sw->arr.size(), "json-word-count", ph << ": fewer state entries than alignment states");
            sc = alignment_iter_seg(sit, &st, &du);
            v = checkEntry(sw->arr[si], fmt3(start + (double)st / frate), fmt3((double)du / frate), fmt3(logmath_exp(lm, sc)), alignment_iter_name(sit), ph + ".w[" + std::to_string(si) + "]");
            if (!v.ok) return v;
            PBT_CHECK(sw->arr[si].get("w") == nullptr, "json-structure", "state entry has a nested list");
          }
          PBT_CHECK(si == sw->arr.size(), "json-word-count", ph << ": more state entries than alignment states");
        }
      }
      PBT_CHECK(pi == pw->arr.size(), "json-word-count", wh << ": more phone entries than alignment phones");
    }
    PBT_CHECK(wi == w->arr.size(), "json-word-count", when << ": more word entries than alignment words");
  }
  ctx.label("json:level" + std::to_string(level));
  ctx.labelIf(w->arr.empty(), "json:empty-word-list");
  if (w->arr.size() >= 2) ctx.nontrivial = true;
  return Verdict::pass();
}


// ------------------------------------------- C04: alignment hierarchy (part 1)
struct AEnt {
  std::string name;
  int start, dur, score;
  std::vector<AEnt> kids;
};

std::vector<AEnt> readAlignment(alignment_t *al) {
  std::vector<AEnt> words;
  for (alignment_iter_t *it = alignment_words(al); it; it = alignment_iter_next(it)) {
    AEnt w;
    w.name = alignment_iter_name(it);
    w.score = alignment_iter_seg(it, &w.start, &w.dur);
    for (alignment_iter_t *p = alignment_iter_children(it); p; p = alignment_iter_next(p)) {
      AEnt ph;
      ph.name = alignment_iter_name(p);
      ph.score = alignment_iter_seg(p, &ph.start, &ph.dur);
      for (alignment_iter_t *q = alignment_iter_children(p); q; q = alignment_iter_next(q)) {
        AEnt st;
        st.name = alignment_iter_name(q);
        st.score = alignment_iter_seg(q, &st.start, &st.dur);
        ph.kids.push_back(st);
      }
      w.kids.push_back(ph);
    }
    words.push_back(w);
  }
  return words;
}

std::string alignStr(const std::vector<AEnt> &ws) {
  std::ostringstream o;
  for (auto &w : ws) {
    o << "{" << w.name << " " << w.start << "+" << w.dur << " s" << w.score << ":";
    for (auto &p : w.kids) {
      o << " (" << p.name << " " << p.start << "+" << p.dur << " s" << p.score << ":";
      for (auto &s : p.kids) o << " [" << s.start << "+" << s.dur << " s" << s.score << "]";
      o << ")";
    }
    o << "} ";
  }
  return o.str();
}

Verdict checkLevel(const std::vector<AEnt> &es, int start, int total, const std::string &what, const std::string &dump) {
  int cur = start;
  for (size_t i = 0; i < es.size(); ++i) {
    PBT_CHECK(es[i].start == cur, "alignment-not-contiguous", what << " " << i << " (" << es[i].name << ") starts at " << es[i].start << ", expected " << cur << " in " << dump);
    PBT_CHECK(es[i].dur > 0, "alignment-nonpositive-duration", what << " " << i << " (" << es[i].name << ") has duration " << es[i].dur << " in " << dump);
    cur += es[i].dur;
  }
  if (total >= 0) PBT_CHECK(cur == start + total, "children-do-not-partition-parent", what << "s cover " << cur - start << " frames of a parent spanning " << total << " in " << dump);
  return Verdict::pass();
}

Verdict oracleC04(decoder_t *d, const Obs &o, bool final, Ctx &ctx) {
  const char *when = final ? "final" : "partial";
  alignment_t *al = decoder_alignment(d);
  if (!al) {
    ctx.label(final ? "alignment:NULL(final)" : "alignment:NULL(partial)");
    // a failed call must not be followed by a stale object
    PBT_CHECK(decoder_alignment(d) == NULL, "stale-alignment-after-failure", when << ": decoder_alignment returned NULL, then non-NULL without new audio");
    return Verdict::pass();
  }
  std::vector<AEnt> ws = readAlignment(al);
  std::string dump = alignStr(ws);
  {
    // asking again without new audio gives the same content (the statement does not promise the same object)
    alignment_t *al2 = decoder_alignment(d);
    PBT_CHECK(al2 != NULL && alignStr(readAlignment(al2)) == dump, "alignment-not-repeatable", when << ": asking twice without new audio gave different alignments:\n first : " << dump << "\n second: " << (al2 ? alignStr(readAlignment(al2)) : std::string("NULL")));
    al = al2;
  }
  // 1. words == first-pass segmentation restricted to dictionary words
  std::vector<Seg> dictSegs;
  for (auto &s : o.segs)
    if (dict_wordid(d->dict, s.word.c_str()) != BAD_S3WID) dictSegs.push_back(s);
  PBT_CHECK(ws.size() == dictSegs.size(), "alignment-words-vs-segmentation", when << ": alignment has " << ws.size() << " words, the first-pass segmentation " << dictSegs.size() << " dictionary words: " << o.str() << " vs " << dump);
  for (size_t i = 0; i < ws.size(); ++i) {
    PBT_CHECK(ws[i].name == dictSegs[i].word, "alignment-words-vs-segmentation", when << ": word " << i << " is '" << ws[i].name << "', first pass says '" << dictSegs[i].word << "'");
    PBT_CHECK(ws[i].start == dictSegs[i].sf && ws[i].dur == dictSegs[i].ef - dictSegs[i].sf + 1, "alignment-boundaries-vs-segmentation", when << ": word " << i << " (" << ws[i].name << ") " << ws[i].start << "+" << ws[i].dur << " but first pass " << dictSegs[i].sf << "-" << dictSegs[i].ef << " in " << dump);
  }
  // 2. phones == dictionary pronunciation, states == emitting states of the model
  int nEmit = bin_mdef_n_emit_state(d->acmod->mdef);
  for (auto &w : ws) {
    int32 wid = dict_wordid(d->dict, w.name.c_str());
    PBT_CHECK((int)w.kids.size() == dict_pronlen(d->dict, wid), "alignment-phones-vs-dictionary", when << ": '" << w.name << "' has " << w.kids.size() << " phones, its pronunciation " << dict_pronlen(d->dict, wid));
    for (size_t j = 0; j < w.kids.size(); ++j) {
      PBT_CHECK(w.kids[j].name == dict_ciphone_str(d->dict, wid, (int)j), "alignment-phones-vs-dictionary", when << ": phone " << j << " of '" << w.name << "' is " << w.kids[j].name << ", dictionary says " << dict_ciphone_str(d->dict, wid, (int)j));
      PBT_CHECK((int)w.kids[j].kids.size() == nEmit, "alignment-states-vs-model", when << ": phone " << w.kids[j].name << " has " << w.kids[j].kids.size() << " states, the model " << nEmit);
    }
  }
  // 2b. the states under a phone are the emitting states, in order, of a model of that phone: the senone
  // sequence must be the one of some triphone (or the context-independent model) of that base phone, and
  // for a word-internal phone exactly the one of the triphone its neighbours in the pronunciation select
  {
    bin_mdef_t *m = d->acmod->mdef;
    static std::map<bin_mdef_t *, std::map<int, std::set<std::vector<int>>>> seqsOf;
    auto &byCi = seqsOf[m];
    if (byCi.empty())
      for (int pid = 0; pid < bin_mdef_n_phone(m); ++pid) {
        std::vector<int> sq;
        for (int k = 0; k < nEmit; ++k) sq.push_back(bin_mdef_sseq2sen(m, bin_mdef_pid2ssid(m, pid), k));
        byCi[bin_mdef_pid2ci(m, pid)].insert(sq);
      }
    for (auto &w : ws) {
      int32 wid = dict_wordid(d->dict, w.name.c_str());
      for (size_t j = 0; j < w.kids.size(); ++j) {
        std::vector<int> sq;
        for (auto &st : w.kids[j].kids) sq.push_back(atoi(st.name.c_str()));
        int ci = dict_pron(d->dict, wid, (int)j);
        PBT_CHECK(byCi[ci].count(sq), "alignment-states-vs-model", when << ": the states of phone " << j << " (" << w.kids[j].name << ") of '" << w.name << "' are not the emitting states, in order, of any model of that phone in " << dump);
        if (j > 0 && j + 1 < w.kids.size()) {
          int pid = bin_mdef_phone_id_nearest(m, ci, dict_pron(d->dict, wid, (int)j - 1), dict_pron(d->dict, wid, (int)j + 1), WORD_POSN_INTERNAL);
          std::vector<int> want;
          for (int k = 0; k < nEmit; ++k) want.push_back(bin_mdef_sseq2sen(m, bin_mdef_pid2ssid(m, pid), k));
          PBT_CHECK(sq == want, "alignment-states-vs-model", when << ": the states of word-internal phone " << j << " (" << w.kids[j].name << ") of '" << w.name << "' are not those of its triphone in " << dump);
        }
      }
    }
  }
  // 3. contiguity from frame 0 at every level; children partition their parent
  Verdict v = checkLevel(ws, 0, -1, "word", dump);
  if (!v.ok) return v;
  for (auto &w : ws) {
    v = checkLevel(w.kids, w.start, w.dur, "phone of " + w.name, dump);
    if (!v.ok) return v;
    for (auto &p : w.kids) {
      v = checkLevel(p.kids, p.start, p.dur, "state of " + p.name, dump);
      if (!v.ok) return v;
    }
  }
  // 4. parent score == sum of children's
  for (auto &w : ws) {
    long ps = 0;
    for (auto &p : w.kids) {
      long ss = 0;
      for (auto &s : p.kids) ss += s.score;
      PBT_CHECK(ss == p.score, "parent-score-not-sum-of-children", when << ": phone " << p.name << " of '" << w.name << "' scores " << p.score << ", its states sum to " << ss << " in " << dump);
      ps += p.score;
    }
    PBT_CHECK(ps == w.score, "parent-score-not-sum-of-children", when << ": word '" << w.name << "' scores " << w.score << ", its phones sum to " << ps << " in " << dump);
  }
  // 5. each word's score equals the acoustic part of what the search gave that word over the same frames.
  // Judged where both passes see the same frame scores (compallsen: no dependence on the active set): the
  // search's segment score minus the configured insertion penalties it contains is a within-word path score
  // over the same frames and models, so the second pass, which maximises over those, can never be below it,
  // and equals it when the search did not prune (beams disabled).
  if (d->acmod->compallsen) {
    fsg_search_t *fs = (fsg_search_t *)d->search;
    config_t *cfg = decoder_config(d);
    bool open = config_float(cfg, "beam") == 0 && config_float(cfg, "pbeam") == 0 && config_float(cfg, "wbeam") == 0;
    // not the last word: nothing follows it in the search, which therefore takes the best of all right-context
    // models for its last phone, while the alignment uses the silence context (different models, no relation)
    for (size_t i = 0; i + 1 < ws.size(); ++i) {
      int32 wid = dict_wordid(d->dict, ws[i].name.c_str());
      // nor one-phone words: the search builds them from the word-final triphone table, the alignment from the
      // single-phone-word table (different models again)
      if (dict_pronlen(d->dict, wid) == 1) continue;
      long pen = (long)fs->wip + (long)fs->pip * dict_pronlen(d->dict, wid);
      long firstPass = (long)dictSegs[i].ascr - pen;
      PBT_CHECK(ws[i].score >= firstPass, "word-score-below-first-pass", when << ": word " << i << " '" << ws[i].name << "' has alignment score " << ws[i].score << " but the search gave it " << dictSegs[i].ascr << " including penalties " << pen << " = " << firstPass << " over the same frames; " << o.str() << " vs " << dump);
      if (open) PBT_CHECK(ws[i].score == firstPass, "word-score-differs-from-first-pass", when << ": word " << i << " '" << ws[i].name << "' has alignment score " << ws[i].score << " but the search (no pruning) gave it " << dictSegs[i].ascr << " including penalties " << pen << " = " << firstPass << " over the same frames; " << o.str() << " vs " << dump);
    }
    ctx.label(open ? "cross-pass:equality" : "cross-pass:bound");
  }
  int real = 0;
  bool fillerBetween = false, alt = false;
  for (size_t i = 0; i < ws.size(); ++i) {
    if (!isFillerWord(d, ws[i].name)) ++real;
    else if (i > 0 && i + 1 < ws.size()) fillerBetween = true;
    if (baseForm(ws[i].name) != ws[i].name) alt = true;
  }
  ctx.labelIf(fillerBetween, "alignment:filler-between-words");
  ctx.labelIf(alt, "alignment:alternate-chosen");
  ctx.label(final ? "alignment:final" : "alignment:partial");
  if (real >= 2) ctx.nontrivial = true;
  return Verdict::pass();
}

// --------------------------------------------------------------------- runner
enum Which { W_C01 = 0, W_C03 = 1, W_C11 = 2, W_C12 = 3, W_C14 = 4, W_C04 = 5 };

Verdict runCase(Choices &c, Ctx &ctx, Which which) {
  // C04's cross-pass clause is judged on the compallsen decoder only
  Case k = genCase(c, which == W_C01 ? 25 : which == W_C03 ? 15 : 20, which == W_C14, which == W_C04 ? 55 : 30);
  c_probeKnown = c.coin(4);
  c_posteriorTwice = which == W_C12 && c.coin(40);
  ctx.describe(caseDesc(k));
  decoder_t *d = gDec[k.decIdx];
  if (k.reFrate && k.reFrate != gFrate[k.decIdx]) {
    // documented way to change the frame rate of a live decoder (decoder.h, decoder_reinit_feat)
    config_set_int(decoder_config(d), "frate", k.reFrate);
    PBT_CHECK(decoder_reinit_feat(d, NULL) == 0, "reinit-feat-refused", "decoder_reinit_feat refused frate=" << k.reFrate);
    gFrate[k.decIdx] = k.reFrate; // (this process is the forked child of the case)
    ctx.label("frame-rate-changed-on-live-decoder");
  }
  applySearchCfg(d, k.sc);
  int rc = install(d, k.gram);
  PBT_CHECK(rc == 0, std::string("install-refused:") + (k.gram.kind == Gram::JSGF ? "jsgf" : k.gram.kind == Gram::FSG ? "fsg" : "align"),
            "valid grammar over dictionary words was refused (rc=" << rc << "): " << k.gram.desc);
  fsa::Fsa gplus = augmentedExplicitNulls(d);
  fsa::Fsa gEps = augmented(d);
  fsg_search_t *fs = (fsg_search_t *)d->search;
  if (k.preRot >= 0) {
    // an earlier utterance on the same search object with exactly the same number of samples (hence frames),
    // with every kind of result requested: whatever the decoder caches by frame count is now populated
    size_t N = k.audio.size();
    int16_t *blk = (int16_t *)malloc(N ? N * 2 : 1);
    for (size_t i = 0; i < N; ++i) blk[i] = k.audio[(i + (size_t)k.preRot) % N];
    PBT_CHECK(decoder_start_utt(d) == 0, "start-utt-failed", "decoder_start_utt failed (earlier utterance)");
    int r = decoder_process_int16(d, blk, N, 0, k.fullUtt);
    free(blk);
    PBT_CHECK(r >= 0, "process-error", "decoder_process_int16 returned " << r << " (earlier utterance)");
    (void)observe(d);
    (void)decoder_alignment(d);
    PBT_CHECK(decoder_end_utt(d) == 0, "end-utt-failed", "decoder_end_utt failed (earlier utterance)");
    (void)observe(d);
    (void)decoder_lattice(d);
    (void)decoder_alignment(d);
    (void)decoder_result_json(d, 0, 2);
    if (hyp_iter_t *nb = decoder_nbest(d)) hyp_iter_free(nb);
    ctx.label("earlier-utterance-with-the-same-frame-count");
  }
  ctx.label(k.gram.kind == Gram::JSGF ? "door:jsgf" : k.gram.kind == Gram::FSG ? "door:fsg" : "door:align");
  ctx.labelIf(k.gram.namesVariant, "grammar:names-a-pronunciation-variant");
  ctx.labelIf(k.gram.confluence, "grammar:rhyming-words-from-two-states-into-one");
  ctx.label("audio:" + k.audioDesc.substr(0, k.audioDesc.find('(')));
  ctx.labelIf(fsa::accepts(k.gram.own, {}, false), "grammar:accepts-empty-sentence");

  PBT_CHECK(decoder_start_utt(d) == 0, "start-utt-failed", "decoder_start_utt failed");
  long returned = 0, supplied = 0;
  size_t pos = 0;
  int partials = 0;
  bool partialHyp = false;
  for (auto &ch : k.chunks) {
    int16_t *blk = (int16_t *)malloc(ch.len ? ch.len * 2 : 1);
    if (ch.len) memcpy(blk, k.audio.data() + pos, ch.len * 2);
    int before = decoder_n_frames(d);
    int r = decoder_process_int16(d, blk, ch.len, ch.noSearch, k.fullUtt);
    free(blk);
    pos += ch.len;
    supplied += (long)ch.len;
    PBT_CHECK(r >= 0, "process-error", "decoder_process_int16 returned " << r);
    if (which == W_C03) {
      PBT_CHECK(decoder_n_frames(d) - before == r, "n-frames-vs-returned", "decoder_n_frames moved by " << decoder_n_frames(d) - before << " across a call that returned " << r);
      if (ch.noSearch) PBT_CHECK(r == 0, "no-search-searched", "a no_search call returned " << r << " searched frames");
    }
    returned += r;
    PBT_CHECK(returned == fs->frame, "returned-vs-search-frame", "processing calls returned " << returned << " frames in total, the search stepped " << fs->frame);
    if (ch.queryAfter) {
      Obs o = observe(d);
      ++partials;
      partialHyp = partialHyp || o.hasHyp;
      Verdict v = judge(d, k, o, false, returned, gplus, gEps, which, ctx);
      if (!v.ok) return v;
    }
  }
  long before = fs->frame;
  PBT_CHECK(decoder_end_utt(d) == 0, "end-utt-failed", "decoder_end_utt failed");
  long T = fs->frame;
  long inEnd = T - before;
  Obs o = observe(d);
  Verdict v = judge(d, k, o, true, T, gplus, gEps, which, ctx);
  if (!v.ok) return v;
  if (which == W_C03) {
    long want = frameFormula((long)k.audio.size(), 410, 160);
    PBT_CHECK(returned + inEnd == want, "frames-searched-vs-front-end", "N=" << k.audio.size() << " samples give " << want << " front-end frames; processing calls returned " << returned << " and end_utt searched " << inEnd);
    if (k.fullUtt) PBT_CHECK(returned == want, "full-utt-frame-count", "full_utt call returned " << returned << " of " << want << " frames");
    ctx.labelIf(want <= 3, "frames:0-3");
    ctx.labelIf(partials > 0, "partial-queried");
  }
  ctx.labelIf(!o.hasHyp, "final:no-hypothesis");
  if (!o.hasHyp) {
    ctx.label(std::string("no-hyp:") + (k.gram.kind == Gram::JSGF ? "jsgf" : k.gram.kind == Gram::FSG ? "fsg" : "align") + (k.sc.beam == 0 ? ":open-beams" : k.sc.beam > 1e-20 ? ":tight-beams" : ":default-beams") + (T < 20 ? ":<20fr" : ""));
    ctx.labelIf(o.hasSeg, "no-hyp:but-segmentation(fillers-only)");
  }
  ctx.labelIf(partials > 0, "partials-taken");
  ctx.labelIf(partialHyp, "partial-hyp-non-null");
  if (which == W_C01) {
    std::vector<std::string> W = project(d, o.segs);
    ctx.nontrivial = (o.hasHyp && W.size() >= 2) || partialHyp;
    ctx.labelIf(o.hasHyp && W.size() >= 2, "final:>=2-words");
  }
  return Verdict::pass();
}


// ------------------------------------------------------- C07: chunk invariance
Verdict propC07(Choices &c, Ctx &ctx) {
  // one choice: the remainder is the 35 % coin for the decoder as before (replay files stay valid); the quotient
  // decides whether an earlier, streamed utterance precedes both runs (the rings then do not start at slot 0)
  uint32_t decRaw = c.raw();
  int decIdx = decRaw % 100 >= 65 ? 1 : 0;
  size_t priorLen = (decRaw / 100) % 4 == 3 ? 3000 + ((decRaw / 400) % 40) * 977 : 0;
  SearchCfg sc = genSearchCfg(c);
  Gram gram = genGrammar(c);
  long N;
  switch (c.weighted({1, 2, 5, 8})) {
  case 0: N = c.range(1, 800); break;
  case 1: N = c.range(800, 8000); break;
  case 2: N = c.range(8000, 24000); break;
  default: N = c.range(24000, 46000); break; // < 300 frames: live CMN cannot shift inside the utterance
  }
  if (sc.beam == 0 && gram.text.size() > 220 && N > 12000) N = 12000;
  std::string adesc;
  std::vector<int16_t> audio = audio::recipe(c, (size_t)N, adesc, true, 14);
  // channel normalisation state fixed at the start of the utterance
  std::string cmn;
  switch (c.weighted({4, 3, 1})) {
  case 0: cmn = "40,3,-1"; break;
  case 1: {
    std::ostringstream o;
    o << (double)c.range(200, 600) / 10.0 << "," << (double)c.range(-100, 100) / 10.0 << "," << (double)c.range(-50, 50) / 10.0 << "," << (double)c.range(-30, 30) / 10.0;
    cmn = o.str();
    break;
  }
  default: cmn = "0"; break;
  }
  UttPlan ref, var;
  ref.chunks = {{(size_t)N, false, false}};
  var.chunks = genChunks(c, (size_t)N, true, 25);
  // bias: make the first chunk shorter than one analysis window now and then
  if (c.coin(25) && !var.chunks.empty() && var.chunks[0].len > 409) {
    size_t first = (size_t)c.range(1, 409);
    Chunk rest = var.chunks[0];
    rest.len -= first;
    var.chunks[0].len = first;
    var.chunks.insert(var.chunks.begin() + 1, rest);
  }
  var.useFloat = c.coin(30);
  var.queryMask = (int)c.range(0, 255);
  bool withAlign = c.coin(60);
  std::ostringstream d;
  d << "dec=" << (decIdx ? "compallsen" : "default") << (priorLen ? " after-an-earlier-utterance(" + std::to_string(priorLen) + " samples streamed)" : "") << " " << sc.str() << " cmn=" << cmn << " | " << gram.desc << " | N=" << N << " " << adesc << " | variant: " << (var.useFloat ? "float32 " : "int16 ") << "chunks=" << chunksStr(var.chunks) << " queries=" << var.queryMask << (withAlign ? " +alignment" : "");
  ctx.describe(d.str());
  decoder_t *dd = gDec[decIdx];
  applySearchCfg(dd, sc);
  int rc = install(dd, gram);
  PBT_CHECK(rc == 0, "install-refused", "valid grammar refused: " << gram.desc);
  if (priorLen) {
    // the same earlier utterance for both runs: speech streamed in 1024-sample blocks
    const auto &sp = audio::goforward();
    PBT_CHECK(decoder_start_utt(dd) == 0, "start-utt-failed", "start_utt of the earlier utterance failed");
    for (size_t pos = 0; pos < priorLen; pos += 1024) {
      std::vector<int16_t> blk(sp.begin() + (long)pos, sp.begin() + (long)std::min(priorLen, pos + 1024));
      PBT_CHECK(decoder_process_int16(dd, blk.data(), blk.size(), 0, 0) >= 0, "process-error", "earlier utterance: process failed");
    }
    PBT_CHECK(decoder_end_utt(dd) == 0, "end-utt-failed", "end_utt of the earlier utterance failed");
    ctx.label("earlier-streamed-utterance");
  }
  auto one = [&](const UttPlan &p, Ctx *cx) {
    if (decoder_set_cmn(dd, cmn.c_str()) != 0) return std::string("set_cmn failed");
    return runUtterance(dd, audio, p, withAlign, cx);
  };
  std::string a = runIsolated([&]() { return one(ref, nullptr); });
  std::string b = one(var, &ctx);
  bool firstShort = !var.chunks.empty() && var.chunks[0].len < 410;
  bool sawNoSearchThenSearch = false;
  for (size_t i = 0; i + 1 < var.chunks.size(); ++i)
    if (var.chunks[i].noSearch && !var.chunks[i + 1].noSearch) sawNoSearchThenSearch = true;
  ctx.labelIf(firstShort, "variant:first-chunk<window");
  ctx.labelIf(sawNoSearchThenSearch, "variant:no_search-then-search");
  ctx.labelIf(var.useFloat, "variant:float32");
  ctx.labelIf(N > 128 * 160, "audio>128-frames(ring-wrap)");
  ctx.labelIf(a.find("hyp=NULL") != std::string::npos, "reference:no-hypothesis");
  if (a != b) {
    std::string key = "result-depends-on-chunking";
    if (firstShort) key += ":first-chunk-shorter-than-window";
    return Verdict::fail(key, "one call : " + a + "\nvariant  : " + b);
  }
  ctx.nontrivial = var.chunks.size() >= 3 && a.find("hyp=NULL") == std::string::npos;
  return Verdict::pass();
}


// ------------------------------------------------ C08: isolation / determinism
struct UttSpec {
  Gram gram;
  std::vector<int16_t> audio;
  std::string adesc;
  UttPlan plan;
  std::string cmn; // "" = no reset
};

UttSpec genUtt(Choices &c, bool target) {
  UttSpec u;
  u.gram = genGrammar(c);
  long N;
  switch (c.weighted({target ? 0 : 2, 2, 5, 5, 1})) {
  case 0: N = 0; break;
  case 1: N = c.range(1, 3000); break;
  case 2: N = c.range(3000, 16000); break;
  case 3: N = c.range(16000, 30000); break;
  // longer than the 128-frame rings: a full-utterance call then leaves larger buffers behind for later streaming
  default: N = c.range(40000, 70000); break;
  }
  u.audio = audio::recipe(c, (size_t)N, u.adesc, true, target ? 16 : 8);
  size_t mode = c.weighted({5, 2, 2}); // streaming | buffered (no_search) | full_utt
  if (mode == 2) {
    u.plan.fullUtt = true;
    u.plan.chunks = {{(size_t)N, false, false}};
  } else {
    u.plan.chunks = genChunks(c, (size_t)N, false, target ? 15 : 10);
    // partial results are asked for along the way, but only the result for the utterance is compared: how many
    // frames have been searched when a call returns depends on the sizes of internal buffers, which an earlier
    // long full-utterance call enlarges - the statement speaks of the result for an utterance
    u.plan.recordPartials = false;
    u.plan.queryUnrecorded = target;
    if (mode == 1)
      for (size_t i = 0; i + 1 < u.plan.chunks.size(); ++i) u.plan.chunks[i].noSearch = true;
  }
  u.plan.useFloat = c.coin(20);
  u.plan.queryMask = target ? 0 : (int)c.range(0, 255);
  return u;
}

std::string uttStr(const UttSpec &u) {
  std::ostringstream o;
  o << "{" << u.gram.desc << " | N=" << u.audio.size() << " " << u.adesc << (u.plan.fullUtt ? " full_utt" : "") << (u.plan.useFloat ? " float32" : "") << " chunks=" << chunksStr(u.plan.chunks) << " queries=" << u.plan.queryMask << (u.cmn.empty() ? "" : " set_cmn=" + u.cmn) << "}";
  return o.str();
}

// skipInstall: the grammar installed for the previous utterance (the same text) stays where it is, so the search
// object - and whatever it caches between utterances - is the one the previous utterance used
std::string runSpec(decoder_t *d, const UttSpec &u, bool withAlign, Ctx *ctx, bool skipInstall = false) {
  if (!skipInstall && install(d, u.gram) != 0) return "install refused";
  if (!u.cmn.empty() && decoder_set_cmn(d, u.cmn.c_str()) != 0) return "set_cmn failed";
  std::string r = runUtterance(d, u.audio, u.plan, withAlign, ctx);
  lattice_t *dag = decoder_lattice(d);
  if (dag) {
    lat::Lat L = lat::read(dag);
    r += " lattice=" + std::to_string(L.nodes.size()) + "n/" + std::to_string(L.links.size()) + "l#" + std::to_string(latFingerprint(L));
  } else
    r += " lattice=NULL";
  return r;
}

Verdict propC08(Choices &c, Ctx &ctx) {
  size_t family = c.weighted({7, 3});
  SearchCfg sc = genSearchCfg(c);
  bool withAlign = c.coin(40);
  if (family == 0) {
    // history then target on one decoder vs target on a fresh decoder
    int decIdx = (int)c.weighted({5, 2, 0, 0, 0, 4});
    // every bundled model's feat_params.json says cmn=current (batch), which overrides the
    // configuration: all decoders of this harness are batch-CMN decoders
    bool batch = true;
    int nh = (int)c.range(1, 4);
    std::vector<UttSpec> H;
    for (int i = 0; i < nh; ++i) {
      UttSpec u = genUtt(c, false);
      if (i > 0 && c.coin(25)) u.gram = H[(size_t)c.range(0, i - 1)].gram; // switch back to an earlier grammar
      if (c.coin(20)) u.cmn = "40,3,-1";
      H.push_back(u);
    }
    UttSpec U = genUtt(c, true);
    if (c.coin(30)) U.gram = H[0].gram;
    // caches inside the decoder are keyed on frame counts: give one history utterance exactly the target's
    // number of samples (hence frames) with different content
    int sibling = -1;
    bool keepGrammar = false;
    uint32_t sibRaw = c.raw(); // remainder: the 35 % coin as before; quotient: does the sibling also share the target's grammar object?
    if (sibRaw % 100 >= 65) {
      sibling = (int)c.range(0, nh - 1);
      if ((sibRaw / 100) % 2 == 1) {
        // the sibling becomes the last utterance of the history, with the target's grammar, and the target is
        // decoded without installing it again
        std::swap(H[(size_t)sibling], H.back());
        sibling = nh - 1;
        H.back().gram = U.gram;
        keepGrammar = true;
      }
      UttSpec &sb = H[(size_t)sibling];
      size_t N = U.audio.size();
      size_t rot = N ? (size_t)c.range(0, (uint32_t)N - 1) : 0;
      sb.audio.assign(N, 0);
      for (size_t i = 0; i < N; ++i) sb.audio[i] = U.audio[(i + rot) % N];
      sb.adesc = "target-rotated(" + std::to_string(rot) + ")";
      sb.plan.fullUtt = U.plan.fullUtt;
      sb.plan.chunks = {{N, false, false}};
      sb.plan.useFloat = false;
    }
    // reset of the one deliberate carry-over; in full-utterance batch mode no reset is needed
    bool needReset = !(batch && U.plan.fullUtt);
    if (needReset) U.cmn = c.coin(70) ? "40,3,-1" : "35.5,2,-0.5,1";
    std::ostringstream d;
    d << "history dec=" << (decIdx == 0 ? "default" : decIdx == 1 ? "compallsen" : "cmn=batch") << " " << sc.str() << (withAlign ? " +alignment" : "") << " H=";
    for (auto &u : H) d << uttStr(u) << " ";
    d << "U=" << uttStr(U) << (keepGrammar ? " (grammar of the last history utterance kept, not installed again)" : "");
    ctx.describe(d.str());
    decoder_t *dd = gDec[decIdx];
    applySearchCfg(dd, sc);
    std::string fresh = runIsolated([&]() { return runSpec(dd, U, withAlign, nullptr); });
    bool failedInH = false, differs = false;
    for (size_t hi = 0; hi < H.size(); ++hi) {
      auto &u = H[hi];
      bool al = c.coin(30);
      if ((int)hi == sibling) al = al || withAlign;
      std::string r = runSpec(dd, u, al, &ctx);
      if (r.find("hyp=NULL") != std::string::npos) failedInH = true;
      if (u.audio != U.audio || u.gram.text != U.gram.text) differs = true;
    }
    std::string after = runSpec(dd, U, withAlign, nullptr, keepGrammar);
    ctx.labelIf(keepGrammar, "history:same-grammar-object-and-frame-count");
    ctx.labelIf(failedInH, "history:utterance-without-hypothesis");
    ctx.labelIf(sibling >= 0, "history:utterance-with-the-target's-frame-count");
    ctx.labelIf(batch, "config:cmn=batch");
    ctx.labelIf(batch && U.plan.fullUtt, "target:full_utt-batch(no-reset)");
    ctx.labelIf(U.plan.fullUtt, "target:full_utt");
    bool streamBefore = false;
    for (auto &u : H) streamBefore = streamBefore || !u.plan.fullUtt;
    ctx.labelIf(streamBefore && U.plan.fullUtt, "history:streaming-before-full_utt");
    if (fresh != after) {
      std::string key = "result-depends-on-history";
      if (batch && U.plan.fullUtt && streamBefore) key += ":batch-cmn-after-streaming";
      return Verdict::fail(key, "fresh decoder : " + fresh + "\nafter history : " + after);
    }
    // determinism: the same utterance once more
    std::string again = runSpec(dd, U, withAlign, nullptr);
    PBT_CHECK(again == after, "result-not-deterministic", "first  : " << after << "\nsecond : " << again);
    // cmn text is a fixpoint of export/import
    {
      std::string g1 = decoder_get_cmn(dd, 0);
      decoder_set_cmn(dd, g1.c_str());
      std::string g2 = decoder_get_cmn(dd, 0);
      PBT_CHECK(g1 == g2, "cmn-text-not-fixpoint", "get_cmn='" << g1 << "' but after set_cmn(get_cmn()) it reads '" << g2 << "'");
    }
    ctx.nontrivial = nh >= 2 && differs && after.find("hyp=NULL") == std::string::npos;
    return Verdict::pass();
  }
  // two decoders alive in one process, operations interleaved
  int ia = (int)c.weighted({3, 2}), ib = (int)c.weighted({2, 3, 0, 0, 0, 2});
  if (ib == ia) ib = ia == 0 ? 1 : 0;
  UttSpec A = genUtt(c, true), B = genUtt(c, true);
  A.cmn = "40,3,-1";
  B.cmn = "40,3,-1";
  A.plan.fullUtt = B.plan.fullUtt = false;
  A.plan.recordPartials = B.plan.recordPartials = false; // the interleaved run records final results only
  if (A.plan.chunks.size() == 1 && A.audio.size() > 4000) A.plan.chunks = {{2000, false, false}, {A.audio.size() - 2000, false, false}};
  if (B.plan.chunks.size() == 1 && B.audio.size() > 4000) B.plan.chunks = {{3000, false, false}, {B.audio.size() - 3000, false, false}};
  std::ostringstream d;
  d << "two-decoders A(dec" << ia << ")=" << uttStr(A) << " B(dec" << ib << ")=" << uttStr(B) << " " << sc.str();
  ctx.describe(d.str());
  decoder_t *da = gDec[ia], *db = gDec[ib];
  applySearchCfg(da, sc);
  applySearchCfg(db, sc);
  std::string soloA = runIsolated([&]() { return runSpec(da, A, false, nullptr); });
  std::string soloB = runIsolated([&]() { return runSpec(db, B, false, nullptr); });
  // interleaved, chunk by chunk
  PBT_CHECK(install(da, A.gram) == 0 && install(db, B.gram) == 0, "install-refused", "valid grammar refused");
  decoder_set_cmn(da, A.cmn.c_str());
  decoder_set_cmn(db, B.cmn.c_str());
  PBT_CHECK(decoder_start_utt(da) == 0 && decoder_start_utt(db) == 0, "start-utt-failed", "start_utt failed with two decoders");
  size_t pa = 0, pb = 0, ca = 0, cb = 0;
  while (ca < A.plan.chunks.size() || cb < B.plan.chunks.size()) {
    bool takeA = cb >= B.plan.chunks.size() || (ca < A.plan.chunks.size() && c.coin(50));
    decoder_t *dx = takeA ? da : db;
    UttSpec &X = takeA ? A : B;
    size_t &px = takeA ? pa : pb;
    size_t &cx = takeA ? ca : cb;
    Chunk ch = X.plan.chunks[cx++];
    int16_t *blk = (int16_t *)malloc(ch.len ? ch.len * 2 : 1);
    if (ch.len) memcpy(blk, X.audio.data() + px, ch.len * 2);
    int r = decoder_process_int16(dx, blk, ch.len, ch.noSearch, 0);
    free(blk);
    px += ch.len;
    PBT_CHECK(r >= 0, "process-error", "process returned " << r);
    if (c.coin(20)) observe(takeA ? db : da);
  }
  auto finish = [&](decoder_t *dx) {
    decoder_end_utt(dx);
    Obs o = observe(dx);
    std::string r = o.str() + " frames_searched=" + std::to_string(((fsg_search_t *)dx->search)->frame);
    lattice_t *dag = decoder_lattice(dx);
    if (dag) {
      lat::Lat L = lat::read(dag);
      r += " lattice=" + std::to_string(L.nodes.size()) + "n/" + std::to_string(L.links.size()) + "l#" + std::to_string(latFingerprint(L));
    } else
      r += " lattice=NULL";
    return r;
  };
  bool aFirst = c.coin(50);
  std::string ra, rb;
  if (aFirst) ra = finish(da), rb = finish(db);
  else rb = finish(db), ra = finish(da);
  // the solo plans may have used float32 / queries; the interleaved run uses int16: compare only when comparable
  if (!A.plan.useFloat) PBT_CHECK(ra == soloA, "decoders-interfere", "decoder A alone : " << soloA << "\ninterleaved     : " << ra);
  if (!B.plan.useFloat) PBT_CHECK(rb == soloB, "decoders-interfere", "decoder B alone : " << soloB << "\ninterleaved     : " << rb);
  ctx.label("family:two-decoders");
  ctx.nontrivial = ra.find("hyp=NULL") == std::string::npos || rb.find("hyp=NULL") == std::string::npos;
  return Verdict::pass();
}


// ------------------------------------------- C16: dictionary additions (model)
struct DictModel {
  struct E {
    std::string word;
    std::vector<std::string> phones;
    int base;
  };
  std::vector<E> words;
  std::map<std::string, int> byName;
};

std::vector<std::string> splitWs(const std::string &s) {
  std::vector<std::string> v;
  std::istringstream is(s);
  std::string t;
  while (is >> t) v.push_back(t);
  return v;
}

DictModel snapshotDict(decoder_t *d) {
  DictModel m;
  dict_t *dict = d->dict;
  for (int w = 0; w < dict_size(dict); ++w) {
    DictModel::E e;
    e.word = dict_wordstr(dict, w);
    for (int p = 0; p < dict_pronlen(dict, w); ++p) e.phones.push_back(dict_ciphone_str(dict, w, p));
    e.base = dict_basewid(dict, w);
    m.byName[e.word] = w;
    m.words.push_back(e);
  }
  return m;
}

std::string modelBaseName(const std::string &w) {
  size_t len = w.size();
  if (len >= 1 && w[len - 1] == ')') {
    long i = (long)len - 2;
    for (; i > 0 && w[(size_t)i] != '('; --i)
      ;
    if (i > 0) return w.substr(0, (size_t)i);
  }
  return "";
}

Verdict compareDict(decoder_t *d, const DictModel &m, const std::vector<int> &touched, bool full, const std::string &after) {
  dict_t *dict = d->dict;
  PBT_CHECK((size_t)dict_size(dict) == m.words.size(), "dictionary-size", after << ": dictionary holds " << dict_size(dict) << " words, model " << m.words.size());
  auto checkWord = [&](int w) -> Verdict {
    const DictModel::E &e = m.words[(size_t)w];
    PBT_CHECK(std::string(dict_wordstr(dict, w)) == e.word, "word-identity-changed", after << ": word id " << w << " is now '" << dict_wordstr(dict, w) << "', was '" << e.word << "'");
    PBT_CHECK(dict_basewid(dict, w) == e.base, "base-word-changed", after << ": '" << e.word << "' has base id " << dict_basewid(dict, w) << ", model " << e.base);
    char *ph = decoder_lookup_word(d, e.word.c_str());
    std::string want;
    for (size_t i = 0; i < e.phones.size(); ++i) want += (i ? " " : "") + e.phones[i];
    std::string got = ph ? ph : "(NULL)";
    ckd_free(ph);
    // the hash table maps a spelling to the id that was registered first for it
    if (m.byName.at(e.word) == w) PBT_CHECK(got == want, "pronunciation-changed", after << ": lookup of '" << e.word << "' gives '" << got << "', expected '" << want << "'");
    return Verdict::pass();
  };
  if (full)
    for (size_t w = 0; w < m.words.size(); ++w) {
      Verdict v = checkWord((int)w);
      if (!v.ok) return v;
    }
  else
    for (int w : touched) {
      Verdict v = checkWord(w);
      if (!v.ok) return v;
    }
  // alternate chains: every base word's chain visits exactly its alternates, each once
  std::map<int, std::set<int>> alts;
  for (size_t w = 0; w < m.words.size(); ++w)
    if (m.words[w].base != (int)w) alts[m.words[w].base].insert((int)w);
  for (size_t w = 0; w < m.words.size(); ++w) {
    if (m.words[w].base != (int)w) continue;
    if (!full && !alts.count((int)w)) continue;
    std::set<int> seen;
    int guard = 0;
    for (int a = dict_nextalt(dict, (int)w); a != BAD_S3WID; a = dict_nextalt(dict, a)) {
      PBT_CHECK(a >= 0 && a < dict_size(dict), "alternate-chain-corrupt", after << ": chain of '" << m.words[w].word << "' points at id " << a << " outside the dictionary");
      PBT_CHECK(seen.insert(a).second && ++guard < 100000, "alternate-chain-corrupt", after << ": chain of '" << m.words[w].word << "' visits id " << a << " twice");
      PBT_CHECK(alts.count((int)w) && alts[(int)w].count(a), "alternate-chain-corrupt", after << ": chain of '" << m.words[w].word << "' contains '" << m.words[(size_t)a].word << "', which is not one of its alternates");
    }
    size_t want = alts.count((int)w) ? alts[(int)w].size() : 0;
    PBT_CHECK(seen.size() == want, "alternate-chain-corrupt", after << ": chain of '" << m.words[w].word << "' has " << seen.size() << " alternates, model " << want);
  }
  return Verdict::pass();
}

Verdict propC16(Choices &c, Ctx &ctx) {
  decoder_t *d = gDec[0];
  SearchCfg sc;
  sc.beam = sc.pbeam = sc.wbeam = 0;
  applySearchCfg(d, sc);
  DictModel m = snapshotDict(d);
  const size_t snapshotCount = m.words.size();
  static const char *ONE[] = {"B", "D", "F", "G", "K", "L", "M", "N", "P", "R", "S", "T", "V", "W", "Y", "Z"};
  static const char *PH[] = {"AA", "AE", "AH", "AO", "AW", "AY", "B", "CH", "D", "DH", "EH", "ER", "EY", "F", "G", "HH", "IH", "IY", "JH", "K", "L", "M", "N", "NG", "OW", "OY", "P", "R", "S", "SH", "T", "TH", "UH", "UW", "V", "W", "Y", "Z", "ZH"};
  int nops = (int)c.range(1, 22);
  std::ostringstream d_;
  d_ << "ops:";
  std::vector<std::string> added; // accepted new spellings
  bool sawAccepted = false, sawRejected = false, sawUse = false;
  int counter = 0;
  if (decoder_set_align_text(d, "go") != 0) return Verdict::fail("install-refused", "baseline align text refused");
  for (int op = 0; op < nops; ++op) {
    size_t kind = c.weighted({12, 3, 3, 1});
    if (kind == 0 || kind == 3) {
      // ---- add ----
      std::string word;
      std::string klass;
      size_t wk = c.weighted({8, 4, 2, 2, 2, 1, 1, 1, 2, 1});
      switch (wk) {
      case 0: word = "zz" + std::to_string(counter++); klass = "new"; break;
      case 1: { // alternate with base present
        const std::string &b = (!added.empty() && c.coin(60)) ? added[(size_t)c.range(0, (int64_t)added.size() - 1)] : m.words[(size_t)c.range(0, (int64_t)m.words.size() - 1)].word;
        word = (modelBaseName(b).empty() ? b : modelBaseName(b)) + "(" + std::to_string(c.range(2, 4)) + ")";
        // alternates of filler words are a corner the statement does not cover (whether they are
        // reported at all depends on how the grammar got them): use a real word instead
        if (word[0] == '<' || word[0] == '[') word = "go(" + std::to_string(c.range(2, 4)) + ")";
        klass = "alternate";
        break;
      }
      case 2: word = "nobase" + std::to_string(counter++) + "(2)"; klass = "alternate-without-base"; break;
      case 3: word = m.words[(size_t)c.range(0, (int64_t)m.words.size() - 1)].word; klass = "duplicate"; break;
      case 4: { // duplicate of an alternate
        std::vector<int> al;
        for (size_t w = 0; w < m.words.size(); ++w)
          if (m.words[w].base != (int)w) al.push_back((int)w);
        word = al.empty() ? "the(2)" : m.words[(size_t)al[(size_t)c.range(0, (int64_t)al.size() - 1)]].word;
        klass = "duplicate-alternate";
        break;
      }
      case 5: word = ""; klass = "empty-word"; break;
      case 6: word = std::string(1, "qxj"[c.range(0, 2)]); klass = "one-char"; break;
      case 7: word = std::string(300, 'w') + std::to_string(counter++); klass = "long-word"; break;
      case 8: word = std::string((const char *[]){"a(b", "a)(", "(x)", "y()", "go(", ")"}[c.range(0, 5)]) + (c.coin(50) ? std::to_string(counter++) : ""); klass = "odd-parens"; break;
      default: word = "GO"; klass = "case-variant"; break;
      }
      std::string pron, pklass;
      size_t pk = c.weighted({3, 3, 6, 1, 4, 3, 3, 1, 2, 1});
      auto rnd = [&]() { return std::string(PH[c.range(0, 38)]); };
      auto one = [&]() { return std::string(ONE[c.range(0, 15)]); };
      switch (pk) {
      case 0: pron = rnd(); pklass = "1-phone"; break;
      case 1: pron = rnd() + " " + rnd(); pklass = "2-phones"; break;
      case 2: {
        int n = (int)c.range(3, 6);
        for (int i = 0; i < n; ++i) pron += (i ? " " : "") + rnd();
        pklass = "3-6-phones";
        break;
      }
      case 3:
        for (int i = 0; i < 30; ++i) pron += (i ? " " : "") + rnd();
        pklass = "30-phones";
        break;
      case 4: {
        int n = (int)c.range(1, 6);
        for (int i = 0; i < n; ++i) pron += (i ? " " : "") + one();
        pklass = "one-letter-phones";
        break;
      }
      case 5: pron = (c.coin(50) ? "  " : "\t") + rnd() + (c.coin(50) ? "   " : " \t ") + one() + (c.coin(50) ? " " : "\t\t"); pklass = "odd-blanks"; break;
      case 6: {
        size_t where = (size_t)c.range(0, 2);
        std::vector<std::string> ps = {rnd(), rnd(), rnd()};
        ps[where] = (const char *[]){"QQ", "XYZ", "A", "SILENCE"}[c.range(0, 3)];
        pron = ps[0] + " " + ps[1] + " " + ps[2];
        pklass = "unknown-phone";
        break;
      }
      case 7: pron = "ah n"; pklass = "wrong-case-phone"; break;
      case 8: pron = ""; pklass = "empty-pron"; break;
      default: pron = c.coin(50) ? "   " : " \t "; pklass = "blank-pron"; break;
      }
      int update = c.coin(60) ? 1 : 0;
      int burst = (kind == 3) ? 4200 : 1;
      for (int b = 0; b < burst; ++b) {
        std::string w = burst > 1 ? "burst" + std::to_string(counter++) : word;
        d_ << " add('" << (w.size() > 20 ? w.substr(0, 20) + "..." : w) << "','" << pron << "'," << update << ")";
        // model verdict
        std::vector<std::string> ph = splitWs(pron);
        bool phonesOk = !ph.empty();
        for (auto &x : ph) {
          bool known = false;
          for (auto y : PH) known = known || x == y;
          known = known || x == "SIL";
          phonesOk = phonesOk && known;
        }
        std::string base = modelBaseName(w);
        bool accept = phonesOk && !w.empty() && !m.byName.count(w) && (base.empty() || m.byName.count(base));
        if (burst == 1) ctx.describe(d_.str());
        int before = dict_size(d->dict);
        int rc = decoder_add_word(d, w.c_str(), pron.c_str(), burst > 1 ? 0 : update);
        if (accept) {
          sawAccepted = true;
          if (rc != before) return Verdict::fail("valid-addition-refused", Msg() << "add('" << w << "','" << pron << "') returned " << rc << ", expected new id " << before << " [" << klass << "/" << pklass << "]");
          DictModel::E e;
          e.word = w;
          e.phones = ph;
          e.base = base.empty() ? before : m.words[(size_t)m.byName[base]].base;
          m.byName[w] = before;
          m.words.push_back(e);
          if (burst == 1) added.push_back(w);
        } else {
          sawRejected = true;
          std::string why = w.empty() ? "empty-word" : !phonesOk ? pklass : m.byName.count(w) ? klass : "alternate-without-base";
          if (rc >= 0) return Verdict::fail("invalid-addition-accepted:" + why, Msg() << "add('" << w << "','" << pron << "') returned " << rc << " but must be refused (" << why << ")");
        }
        if (burst == 1) ctx.label("add:" + klass + "/" + pklass);
      }
      if (burst > 1) ctx.label("add:burst-past-4096");
      std::vector<int> touched;
      touched.push_back((int)m.words.size() - 1);
      for (int t = 0; t < 6; ++t) touched.push_back((int)c.range(0, (int64_t)m.words.size() - 1));
      Verdict v = compareDict(d, m, touched, false, "after add('" + (word.size() > 30 ? word.substr(0, 30) + "..." : word) + "')");
      if (!v.ok) return v;
    } else if (kind == 1) {
      // ---- lookup ----
      std::string w = c.coin(70) ? m.words[(size_t)c.range(0, (int64_t)m.words.size() - 1)].word : "unknown" + std::to_string(c.range(0, 9));
      d_ << " lookup('" << (w.size() > 20 ? w.substr(0, 20) + "..." : w) << "')";
      char *ph = decoder_lookup_word(d, w.c_str());
      bool known = m.byName.count(w) > 0;
      bool ok = known == (ph != NULL);
      ckd_free(ph);
      PBT_CHECK(ok, "lookup", "lookup of " << (known ? "known" : "unknown") << " word '" << w << "' returned " << (ph ? "a pronunciation" : "NULL"));
    } else if (!added.empty()) {
      // ---- use a newly added word at once: alignment text, then decode ----
      const std::string &w = added[(size_t)c.range(0, (int64_t)added.size() - 1)];
      bool ws = false;
      for (char ch : w) ws = ws || isspace((unsigned char)ch);
      if (ws) continue;
      std::string text = c.coin(50) ? w : "go " + w;
      d_ << " align('" << (text.size() > 30 ? text.substr(0, 30) + "..." : text) << "')";
      int rc = decoder_set_align_text(d, text.c_str());
      PBT_CHECK(rc == 0, "new-word-not-usable", "decoder_set_align_text('" << text << "') refused a word that was just added (rc " << rc << ")");
      sawUse = true;
      size_t N = (size_t)c.range(8000, 20000);
      std::string ad;
      std::vector<int16_t> au = audio::recipe(c, N, ad, true, 20);
      UttPlan p;
      p.chunks = {{N, false, false}};
      if (decoder_start_utt(d) != 0) return Verdict::fail("start-utt-failed", "start_utt failed after additions");
      int16_t *blk = (int16_t *)malloc(N * 2);
      memcpy(blk, au.data(), N * 2);
      int r = decoder_process_int16(d, blk, N, 0, 0);
      free(blk);
      PBT_CHECK(r >= 0, "process-error", "process returned " << r);
      decoder_end_utt(d);
      Obs o = observe(d);
      if (o.hasHyp) {
        // alternates are reported under the base spelling
        std::string wantW = modelBaseName(w).empty() ? w : m.words[(size_t)m.words[(size_t)m.byName[w]].base].word;
        if (isFillerWord(d, wantW)) wantW = ""; // alternates of filler words are fillers: never in the hypothesis
        std::string want = text == w ? wantW : (wantW.empty() ? "go" : "go " + wantW);
        PBT_CHECK(o.hyp == want, "new-word-misreported", "forced alignment of '" << text << "' reported '" << o.hyp << "', expected '" << want << "'");
        ctx.label("use:decoded-new-word");
      } else
        ctx.label("use:no-hypothesis");
    }
  }
  ctx.describe(d_.str());
  Verdict v = compareDict(d, m, {}, true, "at the end of the history");
  if (!v.ok) return v;
  // ---- a word added at run time is modelled exactly like the same entry read from a dictionary file:
  // force-align a sentence around it on this decoder and on one that loaded (bundled dictionary + the
  // accepted additions) from a file, and compare words, phones, senone sequences, times and scores
  {
    size_t base0 = snapshotCount;
    bool plain = m.words.size() > base0 && m.words.size() - base0 <= 40;
    for (size_t w = base0; w < m.words.size() && plain; ++w) {
      const std::string &sp = m.words[w].word;
      size_t i = 0;
      while (i < sp.size() && (islower((unsigned char)sp[i]) || isdigit((unsigned char)sp[i]))) ++i;
      bool ok = i > 0 && (i == sp.size() || (i + 3 == sp.size() && sp[i] == '(' && isdigit((unsigned char)sp[i + 1]) && sp[i + 2] == ')'));
      plain = plain && ok;
    }
    if (plain && !added.empty() && c.coin(45)) {
      std::string path = tmpDir() + "/c16_" + std::to_string((long)getpid()) + ".dic";
      {
        std::ifstream in(verifDir() + "/data/mini.dic");
        std::ofstream out(path);
        out << in.rdbuf();
        for (size_t w = base0; w < m.words.size(); ++w) {
          out << m.words[w].word;
          for (auto &ph : m.words[w].phones) out << " " << ph;
          out << "\n";
        }
      }
      DecCfg k;
      k.dict = path;
      decoder_t *ref = makeDecoder(k);
      unlink(path.c_str());
      PBT_CHECK(ref != NULL, "dictionary-file-refused", "a dictionary file holding the bundled entries plus the accepted additions could not be loaded");
      applySearchCfg(ref, sc);
      const std::string &w = added[(size_t)c.range(0, (int64_t)added.size() - 1)];
      const auto &V = vocab();
      std::string text = V[(size_t)c.range(0, (int64_t)V.size() - 1)] + " " + w + " " + V[(size_t)c.range(0, (int64_t)V.size() - 1)];
      size_t N = (size_t)c.range(16000, 30000);
      std::string ad;
      std::vector<int16_t> au = audio::recipe(c, N, ad, true, 20);
      d_ << " compare-with-file-loaded('" << text << "', " << ad << ")";
      ctx.describe(d_.str());
      auto run = [&](decoder_t *x) -> std::string {
        if (decoder_set_align_text(x, text.c_str()) != 0) return "align text refused";
        if (decoder_start_utt(x) != 0) return "start_utt failed";
        int16_t *blk = (int16_t *)malloc(N * 2);
        memcpy(blk, au.data(), N * 2);
        int r = decoder_process_int16(x, blk, N, 0, 1);
        free(blk);
        if (r < 0) return "process failed";
        decoder_end_utt(x);
        Obs o = observe(x);
        alignment_t *al = decoder_alignment(x);
        return o.str() + " alignment=" + (al ? alignStr(readAlignment(al)) : std::string("NULL"));
      };
      std::string a = run(d), b = run(ref);
      decoder_free(ref);
      PBT_CHECK(a == b, "added-word-modelled-differently-from-file-entry", "force-aligning '" << text << "':\n added at run time : " << a << "\n read from a file   : " << b);
      ctx.label(a.find("alignment=NULL") == std::string::npos ? "differential:file-loaded(aligned)" : "differential:file-loaded(no alignment)");
    }
  }
  ctx.labelIf(sawRejected, "history:has-rejected-addition");
  ctx.labelIf(sawUse, "history:new-word-used");
  ctx.nontrivial = sawAccepted && sawRejected;
  return Verdict::pass();
}

Verdict propC01(Choices &c, Ctx &ctx) { return runCase(c, ctx, W_C01); }
Verdict propC03(Choices &c, Ctx &ctx) { return runCase(c, ctx, W_C03); }
Verdict propC11(Choices &c, Ctx &ctx) { return runCase(c, ctx, W_C11); }
Verdict propC12(Choices &c, Ctx &ctx) { return runCase(c, ctx, W_C12); }
Verdict propC14(Choices &c, Ctx &ctx) { return runCase(c, ctx, W_C14); }
Verdict propC04(Choices &c, Ctx &ctx) { return runCase(c, ctx, W_C04); }

void initDecode() {
  err_set_loglevel(ERR_FATAL);
  DecCfg a;
  gDec[0] = makeDecoder(a);
  DecCfg b;
  b.compallsen = true;
  gDec[1] = makeDecoder(b);
  DecCfg h;
  h.dict = verifDir() + "/data/hostile.dic";
  gDec[2] = makeDecoder(h);
  h.frate = 50;
  gDec[3] = makeDecoder(h);
  h.frate = 105;
  gDec[4] = makeDecoder(h);
  DecCfg bt;
  bt.cmn = "batch";
  gDec[5] = makeDecoder(bt);
  if (!gDec[0] || !gDec[1] || !gDec[2] || !gDec[3] || !gDec[4] || !gDec[5]) {
    fprintf(stderr, "decoder_init failed in harness init\n");
    exit(2);
  }
  audio::goforward();
  audio::goforwardFr();
}

} // namespace

namespace pbt {
const PropDef kProps[] = {
    {"C01", propC01, true, 60000, initDecode},
    {"C03", propC03, true, 60000, initDecode},
    {"C11", propC11, true, 20000, initDecode},
    {"C12", propC12, true, 20000, initDecode},
    {"C14", propC14, true, 30000, initDecode},
    {"C04", propC04, true, 30000, initDecode},
    {"C07", propC07, true, 60000, initDecode},
    {"C08", propC08, true, 90000, initDecode},
    {"C16", propC16, true, 60000, initDecode},
    {nullptr, nullptr, false, 0, nullptr},
};
}
