// Decoding harness: one generated decode per case (grammar through one of the
// three front doors x audio recipe x search configuration x chunk plan x
// partial-query points), judged by the oracle of the property being run.
//   C01  results are sentences of the active grammar
//   C03  segmentation tiles the utterance, agrees with hypothesis and score
#include "common/decode.h"

#include <cstring>

using namespace pbt;
using namespace dec;

namespace {

decoder_t *gDec[2] = {nullptr, nullptr};

struct Case {
  int decIdx = 0;
  SearchCfg sc;
  Gram gram;
  std::vector<int16_t> audio;
  std::string audioDesc;
  std::vector<Chunk> chunks;
  bool fullUtt = false;
};

Case genCase(Choices &c, int queryPct) {
  Case k;
  k.decIdx = c.coin(30) ? 1 : 0;
  k.sc = genSearchCfg(c);
  k.gram = genGrammar(c);
  long N;
  switch (c.weighted({1, 1, 3, 8, 2})) {
  case 0: N = 0; break;
  case 1: N = c.range(1, 900); break;             // 0-4 frames
  case 2: N = c.range(900, 16000); break;         // up to 1 s
  case 3: N = c.range(16000, 44800); break;       // the length of the bundled recording
  default: N = c.range(44800, 60000); break;
  }
  k.audio = audio::recipe(c, (size_t)N, k.audioDesc, true, 12);
  k.fullUtt = c.coin(8);
  if (k.fullUtt) k.chunks = {{(size_t)N, false, false}};
  else k.chunks = genChunks(c, (size_t)N, true, queryPct);
  return k;
}

std::string caseDesc(const Case &k) {
  std::ostringstream o;
  o << "dec=" << (k.decIdx ? "compallsen" : "default") << " " << k.sc.str() << " | " << k.gram.desc << " | N=" << k.audio.size() << " "
    << k.audioDesc << (k.fullUtt ? " full_utt" : "") << " chunks=" << chunksStr(k.chunks);
  return o.str();
}

// ------------------------------------------------------------------ oracles
Verdict oracleC01(decoder_t *d, const Case &k, const Obs &o, bool final, const fsa::Fsa &gplus, Ctx &ctx) {
  const char *when = final ? "final" : "partial";
  if (!o.hasSeg) {
    // "no hypothesis" is allowed; but a hypothesis string without segmentation is inconsistent
    PBT_CHECK(!o.hasHyp, "hyp-without-segmentation", when << ": decoder_hyp='" << o.hyp << "' but decoder_seg_iter is NULL");
    return Verdict::pass();
  }
  std::vector<std::string> W = project(d, o.segs);
  // hypothesis string == projection of the segmentation
  if (W.empty()) PBT_CHECK(!o.hasHyp, "hyp-vs-segmentation", when << ": segmentation has no real word but hyp='" << o.hyp << "'");
  else
    PBT_CHECK(o.hasHyp && o.hyp == join(W), "hyp-vs-segmentation", when << ": hyp=" << (o.hasHyp ? "'" + o.hyp + "'" : "NULL") << " but segmentation words are '" << join(W) << "'");
  // segment labels (fillers, alternates, null markers included) are a path of the grammar the search holds
  std::vector<std::string> labels;
  for (auto &s : o.segs) labels.push_back(s.word);
  PBT_CHECK(fsa::accepts(gplus, labels, !final), final ? "segmentation-not-a-grammar-path" : "partial-not-a-grammar-prefix",
            when << ": segment labels '" << join(labels) << "' are not a path of the active grammar from its start state" << (final ? " to its final state" : ""));
  // real words are a sentence of the grammar as the user gave it
  if (final) {
    PBT_CHECK(fsa::accepts(k.gram.own, W, false), "hypothesis-not-a-sentence", "final: '" << join(W) << "' is not accepted by the grammar: " << k.gram.desc);
    if (k.gram.kind == Gram::ALIGN) PBT_CHECK(W == k.gram.alignWords, "alignment-text-mismatch", "final: '" << join(W) << "' differs from the alignment text");
  } else
    PBT_CHECK(fsa::accepts(k.gram.own, W, true), "partial-not-a-sentence-prefix", "partial: '" << join(W) << "' is not a prefix path of the grammar: " << k.gram.desc);
  (void)ctx;
  return Verdict::pass();
}

Verdict oracleC03(decoder_t *d, const Obs &o, bool final, long T, Ctx &ctx) {
  const char *when = final ? "final" : "partial";
  if (!o.hasSeg) return Verdict::pass();
  long cur = 0;
  long sum = 0;
  bool sawNull = false, sawFiller = false;
  for (size_t i = 0; i < o.segs.size(); ++i) {
    auto &s = o.segs[i];
    if (s.word == "(NULL)") {
      sawNull = true;
      ctx.labelIf(i == 0, "first-segment-null");
      PBT_CHECK(s.sf == cur - 1 && s.ef == cur - 1, "null-segment-moves-time", when << ": null segment " << i << " spans " << s.sf << "-" << s.ef << " at cursor " << cur << " in " << o.str());
    } else {
      if (isFillerWord(d, s.word)) sawFiller = true;
      PBT_CHECK(s.sf == cur, i == 0 ? "first-segment-not-at-0" : "segments-not-contiguous", when << ": segment " << i << " (" << s.word << ") starts at " << s.sf << ", expected " << cur << " in " << o.str());
      PBT_CHECK(s.ef >= s.sf, "empty-word-segment", when << ": segment " << i << " (" << s.word << ") spans " << s.sf << "-" << s.ef);
      cur = s.ef + 1;
    }
    sum += (long)s.ascr + (long)s.lscr;
  }
  PBT_CHECK(cur <= T, "segment-beyond-frames-searched", when << ": segmentation ends at frame " << cur - 1 << " but only " << T << " frames were searched");
  std::vector<std::string> W = project(d, o.segs);
  if (W.empty()) PBT_CHECK(!o.hasHyp, "hyp-vs-segmentation", when << ": no real word in segmentation but hyp='" << o.hyp << "'");
  else {
    PBT_CHECK(o.hasHyp && o.hyp == join(W), "hyp-vs-segmentation", when << ": hyp=" << (o.hasHyp ? "'" + o.hyp + "'" : "NULL") << " vs segmentation '" << join(W) << "'");
    PBT_CHECK(sum == (long)o.score, "segment-scores-do-not-sum", when << ": sum of ascr+lscr = " << sum << " but path score = " << o.score << " in " << o.str());
  }
  ctx.labelIf(sawNull, "has-null-segment");
  ctx.labelIf(sawFiller, "has-filler-segment");
  ctx.labelIf(cur < T, "result-ends-before-last-frame");
  if (o.segs.size() >= 3 && (sawNull || sawFiller)) ctx.nontrivial = true;
  return Verdict::pass();
}

// --------------------------------------------------------------------- runner
enum Which { W_C01, W_C03 };

Verdict runCase(Choices &c, Ctx &ctx, Which which) {
  Case k = genCase(c, which == W_C01 ? 25 : 15);
  ctx.describe(caseDesc(k));
  decoder_t *d = gDec[k.decIdx];
  applySearchCfg(d, k.sc);
  int rc = install(d, k.gram);
  PBT_CHECK(rc == 0, std::string("install-refused:") + (k.gram.kind == Gram::JSGF ? "jsgf" : k.gram.kind == Gram::FSG ? "fsg" : "align"),
            "valid grammar over dictionary words was refused (rc=" << rc << "): " << k.gram.desc);
  fsa::Fsa gplus = augmentedExplicitNulls(d);
  fsg_search_t *fs = (fsg_search_t *)d->search;
  ctx.label(k.gram.kind == Gram::JSGF ? "door:jsgf" : k.gram.kind == Gram::FSG ? "door:fsg" : "door:align");
  ctx.label("audio:" + k.audioDesc.substr(0, k.audioDesc.find('(')));
  ctx.labelIf(fsa::accepts(k.gram.own, {}, false), "grammar:accepts-empty-sentence");

  PBT_CHECK(decoder_start_utt(d) == 0, "start-utt-failed", "decoder_start_utt failed");
  long returned = 0, supplied = 0;
  size_t pos = 0;
  int partials = 0;
  bool partialHyp = false;
  for (auto &ch : k.chunks) {
    int16_t *blk = (int16_t *)malloc(ch.len ? ch.len * 2 : 1);
    if (ch.len) memcpy(blk, k.audio.data() + pos, ch.len * 2);
    int before = decoder_n_frames(d);
    int r = decoder_process_int16(d, blk, ch.len, ch.noSearch, k.fullUtt);
    free(blk);
    pos += ch.len;
    supplied += (long)ch.len;
    PBT_CHECK(r >= 0, "process-error", "decoder_process_int16 returned " << r);
    if (which == W_C03) {
      PBT_CHECK(decoder_n_frames(d) - before == r, "n-frames-vs-returned", "decoder_n_frames moved by " << decoder_n_frames(d) - before << " across a call that returned " << r);
      if (ch.noSearch) PBT_CHECK(r == 0, "no-search-searched", "a no_search call returned " << r << " searched frames");
    }
    returned += r;
    PBT_CHECK(returned == fs->frame, "returned-vs-search-frame", "processing calls returned " << returned << " frames in total, the search stepped " << fs->frame);
    if (ch.queryAfter && !k.fullUtt) {
      Obs o = observe(d);
      ++partials;
      partialHyp = partialHyp || o.hasHyp;
      Verdict v = which == W_C01 ? oracleC01(d, k, o, false, gplus, ctx) : oracleC03(d, o, false, returned, ctx);
      if (!v.ok) return v;
    }
  }
  long before = fs->frame;
  PBT_CHECK(decoder_end_utt(d) == 0, "end-utt-failed", "decoder_end_utt failed");
  long T = fs->frame;
  long inEnd = T - before;
  Obs o = observe(d);
  Verdict v = which == W_C01 ? oracleC01(d, k, o, true, gplus, ctx) : oracleC03(d, o, true, T, ctx);
  if (!v.ok) return v;
  if (which == W_C03) {
    long want = frameFormula((long)k.audio.size(), 410, 160);
    PBT_CHECK(returned + inEnd == want, "frames-searched-vs-front-end", "N=" << k.audio.size() << " samples give " << want << " front-end frames; processing calls returned " << returned << " and end_utt searched " << inEnd);
    if (k.fullUtt) PBT_CHECK(returned == want, "full-utt-frame-count", "full_utt call returned " << returned << " of " << want << " frames");
    ctx.labelIf(want <= 3, "frames:0-3");
    ctx.labelIf(partials > 0, "partial-queried");
  }
  ctx.labelIf(!o.hasHyp, "final:no-hypothesis");
  if (!o.hasHyp) {
    ctx.label(std::string("no-hyp:") + (k.gram.kind == Gram::JSGF ? "jsgf" : k.gram.kind == Gram::FSG ? "fsg" : "align") + (k.sc.beam == 0 ? ":open-beams" : k.sc.beam > 1e-20 ? ":tight-beams" : ":default-beams") + (T < 20 ? ":<20fr" : ""));
    ctx.labelIf(o.hasSeg, "no-hyp:but-segmentation(fillers-only)");
  }
  ctx.labelIf(partials > 0, "partials-taken");
  ctx.labelIf(partialHyp, "partial-hyp-non-null");
  if (which == W_C01) {
    std::vector<std::string> W = project(d, o.segs);
    ctx.nontrivial = (o.hasHyp && W.size() >= 2) || partialHyp;
    ctx.labelIf(o.hasHyp && W.size() >= 2, "final:>=2-words");
  }
  return Verdict::pass();
}

Verdict propC01(Choices &c, Ctx &ctx) { return runCase(c, ctx, W_C01); }
Verdict propC03(Choices &c, Ctx &ctx) { return runCase(c, ctx, W_C03); }

void initDecode() {
  err_set_loglevel(ERR_FATAL);
  DecCfg a;
  gDec[0] = makeDecoder(a);
  DecCfg b;
  b.compallsen = true;
  gDec[1] = makeDecoder(b);
  if (!gDec[0] || !gDec[1]) {
    fprintf(stderr, "decoder_init failed in harness init\n");
    exit(2);
  }
  audio::goforward();
  audio::goforwardFr();
}

} // namespace

namespace pbt {
const PropDef kProps[] = {
    {"C01", propC01, true, 60000, initDecode},
    {"C03", propC03, true, 60000, initDecode},
    {nullptr, nullptr, false, 0, nullptr},
};
}
