// Decoding harness: one generated decode per case (grammar through one of the
// three front doors x audio recipe x search configuration x chunk plan x
// partial-query points), judged by the oracle of the property being run.
//   C01  results are sentences of the active grammar
//   C03  segmentation tiles the utterance, agrees with hypothesis and score
#include "common/decode.h"
#include "common/json.h"
#include "common/latalg.h"

extern "C" {
#include <soundswallower/alignment.h>
size_t __sanitizer_get_allocated_size(const volatile void *p);
}

#include <cstring>

using namespace pbt;
using namespace dec;

namespace {

decoder_t *gDec[5] = {nullptr, nullptr, nullptr, nullptr, nullptr};
int gFrate[5] = {100, 100, 100, 50, 125};
bool c_probeKnown = false; // set per case: assert listed known classes on a small fraction of cases

struct Case {
  int decIdx = 0;
  SearchCfg sc;
  Gram gram;
  std::vector<int16_t> audio;
  std::string audioDesc;
  std::vector<Chunk> chunks;
  bool fullUtt = false;
  int jsonLevel = 0;
  double jsonStart = 0;
};

const std::vector<std::string> &hostileWords();
std::string fmt3(double x);

Case genCase(Choices &c, int queryPct, bool forJson = false) {
  Case k;
  k.decIdx = c.coin(30) ? 1 : 0;
  if (forJson) k.decIdx = (int)c.weighted({2, 1, 5, 2, 2});
  k.sc = genSearchCfg(c);
  if (forJson && k.decIdx >= 2) k.gram = genGrammar(c, 0, 3, 4, &hostileWords());
  else k.gram = genGrammar(c);
  if (forJson) {
    k.jsonLevel = (int)c.weighted({3, 2, 2});
    switch (c.weighted({3, 3, 1, 1})) {
    case 0: k.jsonStart = 0; break;
    case 1: k.jsonStart = (double)c.range(0, 999999) + (double)c.range(0, 999) / 1000.0; break;
    case 2: k.jsonStart = 1e-9; break;
    default: k.jsonStart = -(double)c.range(1, 5000) / 7.0; break;
    }
  }
  long N;
  switch (c.weighted({1, 1, 3, 8, 2})) {
  case 0: N = 0; break;
  case 1: N = c.range(1, 900); break;             // 0-4 frames
  case 2: N = c.range(900, 16000); break;         // up to 1 s
  case 3: N = c.range(16000, 44800); break;       // the length of the bundled recording
  default: N = c.range(44800, 60000); break;
  }
  // wide-open beams over a large expanded grammar cost seconds per second of audio:
  // keep those cases short (bounded by size, not by a time limit)
  if (k.sc.beam == 0 && k.gram.text.size() > 220 && N > 12000) N = 12000;
  k.audio = audio::recipe(c, (size_t)N, k.audioDesc, true, 12);
  k.fullUtt = c.coin(8);
  if (k.fullUtt) k.chunks = {{(size_t)N, false, false}};
  else k.chunks = genChunks(c, (size_t)N, true, queryPct);
  return k;
}

std::string caseDesc(const Case &k) {
  std::ostringstream o;
  static const char *DN[] = {"default", "compallsen", "hostile-dict", "hostile-dict+frate50", "hostile-dict+frate125"};
  o << "dec=" << DN[k.decIdx] << (k.jsonLevel || k.jsonStart != 0 ? " json(level=" + std::to_string(k.jsonLevel) + ",start=" + fmt3(k.jsonStart) + ")" : "") << " " << k.sc.str() << " | " << k.gram.desc << " | N=" << k.audio.size() << " "
    << k.audioDesc << (k.fullUtt ? " full_utt" : "") << " chunks=" << chunksStr(k.chunks);
  return o.str();
}

// ------------------------------------------------------------------ oracles
Verdict oracleC01(decoder_t *d, const Case &k, const Obs &o, bool final, const fsa::Fsa &gplus, Ctx &ctx) {
  const char *when = final ? "final" : "partial";
  if (!o.hasSeg) {
    // "no hypothesis" is allowed; but a hypothesis string without segmentation is inconsistent
    PBT_CHECK(!o.hasHyp, "hyp-without-segmentation", when << ": decoder_hyp='" << o.hyp << "' but decoder_seg_iter is NULL");
    return Verdict::pass();
  }
  std::vector<std::string> W = project(d, o.segs);
  // hypothesis string == projection of the segmentation
  if (W.empty()) PBT_CHECK(!o.hasHyp, "hyp-vs-segmentation", when << ": segmentation has no real word but hyp='" << o.hyp << "'");
  else
    PBT_CHECK(o.hasHyp && o.hyp == join(W), "hyp-vs-segmentation", when << ": hyp=" << (o.hasHyp ? "'" + o.hyp + "'" : "NULL") << " but segmentation words are '" << join(W) << "'");
  // segment labels (fillers, alternates, null markers included) are a path of the grammar the search holds
  std::vector<std::string> labels;
  for (auto &s : o.segs) labels.push_back(s.word);
  PBT_CHECK(fsa::accepts(gplus, labels, !final), final ? "segmentation-not-a-grammar-path" : "partial-not-a-grammar-prefix",
            when << ": segment labels '" << join(labels) << "' are not a path of the active grammar from its start state" << (final ? " to its final state" : ""));
  // real words are a sentence of the grammar as the user gave it
  if (final) {
    PBT_CHECK(fsa::accepts(k.gram.own, W, false), "hypothesis-not-a-sentence", "final: '" << join(W) << "' is not accepted by the grammar: " << k.gram.desc);
    if (k.gram.kind == Gram::ALIGN) PBT_CHECK(W == k.gram.alignWords, "alignment-text-mismatch", "final: '" << join(W) << "' differs from the alignment text");
  } else
    PBT_CHECK(fsa::accepts(k.gram.own, W, true), "partial-not-a-sentence-prefix", "partial: '" << join(W) << "' is not a prefix path of the grammar: " << k.gram.desc);
  (void)ctx;
  return Verdict::pass();
}

Verdict oracleC03(decoder_t *d, const Obs &o, bool final, long T, Ctx &ctx) {
  const char *when = final ? "final" : "partial";
  if (!o.hasSeg) return Verdict::pass();
  long cur = 0;
  long sum = 0;
  bool sawNull = false, sawFiller = false;
  for (size_t i = 0; i < o.segs.size(); ++i) {
    auto &s = o.segs[i];
    if (s.word == "(NULL)") {
      sawNull = true;
      ctx.labelIf(i == 0, "first-segment-null");
      PBT_CHECK(s.sf == cur - 1 && s.ef == cur - 1, "null-segment-moves-time", when << ": null segment " << i << " spans " << s.sf << "-" << s.ef << " at cursor " << cur << " in " << o.str());
    } else {
      if (isFillerWord(d, s.word)) sawFiller = true;
      PBT_CHECK(s.sf == cur, i == 0 ? "first-segment-not-at-0" : "segments-not-contiguous", when << ": segment " << i << " (" << s.word << ") starts at " << s.sf << ", expected " << cur << " in " << o.str());
      PBT_CHECK(s.ef >= s.sf, "empty-word-segment", when << ": segment " << i << " (" << s.word << ") spans " << s.sf << "-" << s.ef);
      cur = s.ef + 1;
    }
    sum += (long)s.ascr + (long)s.lscr;
  }
  PBT_CHECK(cur <= T, "segment-beyond-frames-searched", when << ": segmentation ends at frame " << cur - 1 << " but only " << T << " frames were searched");
  std::vector<std::string> W = project(d, o.segs);
  if (W.empty()) PBT_CHECK(!o.hasHyp, "hyp-vs-segmentation", when << ": no real word in segmentation but hyp='" << o.hyp << "'");
  else {
    PBT_CHECK(o.hasHyp && o.hyp == join(W), "hyp-vs-segmentation", when << ": hyp=" << (o.hasHyp ? "'" + o.hyp + "'" : "NULL") << " vs segmentation '" << join(W) << "'");
    PBT_CHECK(sum == (long)o.score, "segment-scores-do-not-sum", when << ": sum of ascr+lscr = " << sum << " but path score = " << o.score << " in " << o.str());
  }
  ctx.labelIf(sawNull, "has-null-segment");
  ctx.labelIf(sawFiller, "has-filler-segment");
  ctx.labelIf(cur < T, "result-ends-before-last-frame");
  if (o.segs.size() >= 3 && (sawNull || sawFiller)) ctx.nontrivial = true;
  return Verdict::pass();
}


// grammar simulation over the augmented grammar (null arcs = epsilon)
struct GSim {
  fsa::Enumerator e;
  explicit GSim(const fsa::Fsa &a) : e(a, 0) {}
  typedef std::vector<int> SS;
  SS fromFront(const fsa::Enumerator::Front &f) {
    SS s;
    for (auto &kv : f) s.push_back(kv.first);
    return s;
  }
  SS initial() {
    fsa::Enumerator::Front f;
    f[e.a.start] = 0;
    e.closure(f);
    return fromFront(f);
  }
  SS step(const SS &s, const std::string &w) {
    fsa::Enumerator::Front nx;
    for (int st : s)
      for (auto arc : e.out[st])
        if (arc->label == w) nx[arc->to] = 0;
    e.closure(nx);
    return fromFront(nx);
  }
};

// find a chain of linked lattice nodes matching (word, sf, ef) triples
bool findChain(const lat::Lat &L, const std::vector<Seg> &segs, size_t i, int node, std::vector<int> &chain) {
  if (i == segs.size()) return true;
  for (size_t n = 0; n < L.nodes.size(); ++n) {
    const lat::Node &x = L.nodes[n];
    if (x.word != segs[i].word || x.sf != segs[i].sf) continue;
    // synthetic <s>/</s> nodes are zero-length markers: no end-frame range to honour
    if (!lat::synthetic(L, (int)n) && (segs[i].ef < x.fef || segs[i].ef > x.lef)) continue;
    if (node >= 0) {
      bool linked = false;
      for (int li : L.nodes[node].out)
        if (L.links[li].to == (int)n) linked = true;
      if (!linked) continue;
    }
    chain.push_back((int)n);
    if (findChain(L, segs, i + 1, (int)n, chain)) return true;
    chain.pop_back();
  }
  return false;
}

Verdict oracleC11(decoder_t *d, lattice_t *dag, const Obs &o, const fsa::Fsa &gEps, bool final, Ctx &ctx) {
  const char *when = final ? "final" : "partial";
  lat::Lat L = lat::read(dag);
  PBT_CHECK(L.problem.empty(), "lattice-structure", when << ": " << L.problem);
  PBT_CHECK(L.start >= 0 && L.end >= 0, "no-start-or-end-node", when << ": lattice without a start or end node among its nodes");
  bool cyclic = false;
  std::vector<int> order = lat::topo(L, &cyclic);
  PBT_CHECK(!cyclic, "lattice-cycle", when << ": the lattice has a cycle");
  std::vector<bool> fw = lat::reach(L, L.start, true), bw = lat::reach(L, L.end, false);
  for (size_t n = 0; n < L.nodes.size(); ++n) {
    PBT_CHECK(fw[n], "node-not-reachable-from-start", when << ": node " << L.nodes[n].word << "@" << L.nodes[n].sf << " is not reachable from the start node " << L.nodes[L.start].word << "@" << L.nodes[L.start].sf << " (" << L.nodes.size() << " nodes)");
    PBT_CHECK(bw[n], "node-cannot-reach-end", when << ": node " << L.nodes[n].word << "@" << L.nodes[n].sf << " does not reach the end node");
  }
  PBT_CHECK(L.nframes == ((fsg_search_t *)d->search)->frame, "lattice-frame-count", when << ": lattice covers " << L.nframes << " frames, the search has " << ((fsg_search_t *)d->search)->frame);
  for (auto &l : L.links) {
    const lat::Node &u = L.nodes[l.from], &v = L.nodes[l.to];
    if (lat::synthetic(L, l.from)) {
      PBT_CHECK(v.sf == 0, "link-adjacency", when << ": synthetic start links to " << v.word << "@" << v.sf);
      continue;
    }
    if (lat::synthetic(L, l.to)) {
      PBT_CHECK(u.lef == L.nframes - 1, "link-adjacency", when << ": " << u.word << "@" << u.sf << " (last end frame " << u.lef << ") links to the synthetic end of a " << L.nframes << "-frame lattice");
      continue;
    }
    PBT_CHECK(v.sf == l.ef + 1, "link-adjacency", when << ": link " << u.word << "@" << u.sf << " -> " << v.word << "@" << v.sf << " ends at frame " << l.ef);
    PBT_CHECK(u.fef <= l.ef && l.ef <= u.lef, "link-adjacency", when << ": link end frame " << l.ef << " outside the end-frame range " << u.fef << ".." << u.lef << " of " << u.word << "@" << u.sf);
    PBT_CHECK(0 <= u.sf && u.sf <= l.ef && l.ef < L.nframes, "link-adjacency", when << ": word instance " << u.word << " " << u.sf << "-" << l.ef << " outside the utterance (" << L.nframes << " frames)");
  }
  // every path is a grammar path: propagate (node, state set)
  {
    GSim g(gEps);
    std::vector<std::set<GSim::SS>> sets(L.nodes.size());
    GSim::SS s0 = g.initial();
    if (lat::synthetic(L, L.start)) sets[L.start].insert(s0);
    else {
      GSim::SS s1 = g.step(s0, L.nodes[L.start].word);
      PBT_CHECK(!s1.empty(), "lattice-path-not-in-grammar", when << ": start node word '" << L.nodes[L.start].word << "' does not leave the grammar's start state");
      sets[L.start].insert(s1);
    }
    size_t pairs = 1;
    bool capped = false;
    for (int n : order) {
      if (capped) break;
      for (int li : L.nodes[n].out) {
        int m = L.links[li].to;
        for (auto &S : sets[n]) {
          GSim::SS S2 = lat::synthetic(L, m) ? S : g.step(S, L.nodes[m].word);
          PBT_CHECK(!S2.empty(), "lattice-path-not-in-grammar", when << ": a lattice path reaches " << L.nodes[n].word << "@" << L.nodes[n].sf << " and continues with '" << L.nodes[m].word << "'@" << L.nodes[m].sf << ", which no grammar path from the start state allows");
          if (sets[m].insert(S2).second && ++pairs > 50000) capped = true;
        }
      }
    }
    ctx.labelIf(capped, "grammar-simulation:capped");
  }
  // the first-best segmentation appears as a path
  if (o.hasSeg) {
    std::vector<Seg> real;
    for (auto &s : o.segs)
      if (s.word != "(NULL)") real.push_back(s);
    if (!real.empty()) {
      std::vector<int> chain;
      if (!findChain(L, real, 0, -1, chain)) {
        // classify: which part of the first-best path is missing
        std::string cls = "first-best-not-in-lattice";
        std::vector<Seg> head(real.begin(), real.end() - 1);
        chain.clear();
        if (real.size() == 1) cls += ":single-segment";
        else if (findChain(L, head, 0, -1, chain)) cls += ":last-segment-missing";
        if (!isKnown(cls) || c_probeKnown)
          return Verdict::fail(cls, Msg() << when << ": the first-best segmentation " << o.str() << " is not a chain of linked lattice nodes (" << L.nodes.size() << " nodes, end node " << L.nodes[L.end].word << "@" << L.nodes[L.end].sf << ")");
        ctx.label("known-class-not-asserted:" + cls);
      }
      ctx.labelIf(real.size() == 1, "first-best-single-segment");
    }
  }
  PBT_CHECK(decoder_lattice(d) == dag, "lattice-not-cached", when << ": asking again without new audio returned a different lattice object");
  double paths = lat::countPaths(L, order);
  ctx.labelIf(lat::synthetic(L, L.start), "synthetic-start");
  ctx.labelIf(lat::synthetic(L, L.end), "synthetic-end");
  if (L.nodes.size() >= 4 && paths >= 2) ctx.nontrivial = true;
  return Verdict::pass();
}

std::string dumpLat(const lat::Lat &L) {
  std::ostringstream o;
  if (L.nodes.size() > 40) return "(" + std::to_string(L.nodes.size()) + " nodes)";
  for (size_t i = 0; i < L.nodes.size(); ++i) {
    const lat::Node &n = L.nodes[i];
    o << "\n  " << (int(i) == L.start ? "START " : int(i) == L.end ? "END " : "") << n.word << "@" << n.sf << " ef " << n.fef << ".." << n.lef << " ->";
    for (int li : n.out) o << " " << L.nodes[L.links[li].to].word << "@" << L.nodes[L.links[li].to].sf << "(" << L.links[li].ascr << ",ef" << L.links[li].ef << ")";
  }
  return o.str();
}

long double lse(long double a, long double b, long double lnb) {
  // log_b(b^a + b^b)
  if (a < b) std::swap(a, b);
  return a + log1pl(expl((b - a) * lnb)) / lnb;
}

Verdict oracleC12(decoder_t *d, lattice_t *dag, bool final, Ctx &ctx) {
  const char *when = final ? "final" : "partial";
  fsg_search_t *fs = (fsg_search_t *)d->search;
  float ascale = fs->ascale;
  logmath_t *lm = lattice_get_logmath(dag);
  const long double lnb = logl((long double)logmath_get_base(lm));
  const int zero = logmath_get_zero(lm);
  lat::Lat L = lat::read(dag);
  if (!L.problem.empty() || L.start < 0 || L.end < 0) return Verdict::pass(); // judged by C11
  bool cyclic = false;
  std::vector<int> order = lat::topo(L, &cyclic);
  if (cyclic) return Verdict::pass();
  std::vector<bool> fw = lat::reach(L, L.start, true), bw = lat::reach(L, L.end, false);
  for (size_t n = 0; n < L.nodes.size(); ++n)
    if (!fw[n] || !bw[n]) {
      ctx.label("skipped:malformed-lattice(C11)");
      return Verdict::pass();
    }
  // --- independent longest path ---
  const long NEGINF = -(1L << 60);
  std::vector<long> best(L.nodes.size(), NEGINF);
  best[L.start] = 0;
  for (int n : order)
    if (best[n] > NEGINF)
      for (int li : L.nodes[n].out) best[L.links[li].to] = std::max(best[L.links[li].to], best[n] + L.links[li].ascr);
  long B = best[L.end];
  // --- best path of the library ---
  latlink_t *bl = lattice_bestpath(dag, ascale);
  if (L.start == L.end || L.nodes[L.end].in.empty()) {
    ctx.label("lattice:single-node");
    return Verdict::pass();
  }
  PBT_CHECK(bl != NULL, "bestpath-null", when << ": lattice_bestpath returned NULL on a lattice with start-to-end paths");
  PBT_CHECK(bl->to == dag->end, "bestpath-not-into-end", when << ": best link does not enter the end node");
  PBT_CHECK((long)bl->path_scr == B, "bestpath-not-optimal", when << ": lattice_bestpath score " << bl->path_scr << ", independent longest path " << B);
  {
    long sum = 0;
    int guard = 0;
    latlink_t *l = bl;
    for (; l; l = l->best_prev) {
      sum += l->ascr;
      if (l->best_prev) PBT_CHECK(l->best_prev->to == l->from, "bestpath-chain-broken", when << ": best_prev chain is not a connected path");
      else
        PBT_CHECK(l->from == dag->start, "bestpath-chain-broken", when << ": best path does not begin at the start node");
      PBT_CHECK(++guard < 100000, "bestpath-chain-broken", "best_prev chain does not terminate");
    }
    PBT_CHECK(sum == B, "bestpath-not-optimal", when << ": scores along the best_prev chain sum to " << sum << ", path_scr says " << B);
  }
  // --- posteriors ---
  int32 post = lattice_posterior(dag, ascale);
  {
    size_t nl = L.links.size();
    std::vector<long double> t(nl), a(nl), b(nl), ea(nl, 0), eb(nl, 0);
    for (size_t i = 0; i < nl; ++i) t[i] = (long double)(int32)(((int32)L.links[i].ascr << SENSCR_SHIFT) * ascale);
    // forward in topological order of source nodes
    for (int n : order) {
      for (int li : L.nodes[n].out) {
        if (n == L.start) {
          a[li] = t[li];
          ea[li] = 0;
        } else {
          bool first = true;
          long double acc = 0, e = 0;
          for (int pi : L.nodes[n].in) {
            acc = first ? a[pi] : lse(acc, a[pi], lnb);
            e = std::max(e, ea[pi]);
            first = false;
          }
          a[li] = acc + t[li];
          ea[li] = e + 0.5L * (long double)L.nodes[n].in.size();
        }
      }
    }
    long double normRef = 0, en = 0;
    {
      bool first = true;
      for (int pi : L.nodes[L.end].in) {
        normRef = first ? a[pi] : lse(normRef, a[pi], lnb);
        en = std::max(en, ea[pi]);
        first = false;
      }
      en += 0.5L * (long double)L.nodes[L.end].in.size();
    }
    for (auto it = order.rbegin(); it != order.rend(); ++it) {
      int n = *it;
      for (int li : L.nodes[n].in) { // links ending in n
        if (n == L.end) {
          b[li] = 0;
          eb[li] = 0;
        } else {
          bool first = true;
          long double acc = 0, e = 0;
          for (int xi : L.nodes[n].out) {
            long double v = b[xi] + t[xi];
            acc = first ? v : lse(acc, v, lnb);
            e = std::max(e, eb[xi]);
            first = false;
          }
          b[li] = acc;
          eb[li] = e + 0.5L * (long double)L.nodes[n].out.size();
        }
      }
    }
    const long double tol = 1e-6L;
    PBT_CHECK(fabsl((long double)dag->norm - normRef) <= en + tol, "forward-total", when << ": normaliser " << dag->norm << ", independent forward total " << (double)normRef << " (bound " << (double)en << ")");
    long double back = 0, ebk = 0;
    {
      bool first = true;
      for (int xi : L.nodes[L.start].out) {
        long double v = (long double)L.links[xi].p->beta + t[xi];
        back = first ? v : lse(back, v, lnb);
        ebk = std::max(ebk, eb[xi]);
        first = false;
      }
      ebk += 0.5L * (long double)L.nodes[L.start].out.size();
    }
    PBT_CHECK(fabsl(back - (long double)dag->norm) <= en + ebk + tol, "forward-backward-disagree", when << ": backward total " << (double)back << " vs forward total " << dag->norm << " (bound " << (double)(en + ebk) << ")");
    for (size_t i = 0; i < nl; ++i) {
      latlink_t *l = L.links[i].p;
      PBT_CHECK(fabsl((long double)l->alpha - a[i]) <= ea[i] + tol, "alpha-inaccurate", when << ": link alpha " << l->alpha << " vs reference " << (double)a[i] << " (bound " << (double)ea[i] << ")");
      PBT_CHECK(fabsl((long double)l->beta - b[i]) <= eb[i] + tol, "beta-inaccurate", when << ": link beta " << l->beta << " vs reference " << (double)b[i] << " (bound " << (double)eb[i] << ")");
      int32 ascrOut = 0;
      long p = ps_latlink_prob(dag, l, &ascrOut);
      PBT_CHECK((long double)p <= ea[i] + eb[i] + en + tol, "posterior-above-one", when << ": link posterior " << p << " > 0 beyond the rounding bound " << (double)(ea[i] + eb[i] + en));
      PBT_CHECK(p >= (long)zero * 3, "posterior-below-zero", when << ": link posterior " << p << " below log-zero");
    }
    PBT_CHECK((long double)post <= en + tol, "best-path-posterior-above-one", when << ": lattice_posterior returned " << post << " > 0 beyond the rounding bound " << (double)en);
  }
  // --- N-best ---
  double npaths = lat::countPaths(L, order);
  std::map<std::string, std::set<long>> pathScores; // real-word sequence -> scores of start->end paths
  bool enumerated = false;
  if (npaths <= 20000) {
    enumerated = true;
    // DFS enumeration
    struct Fr {
      int node;
      size_t next;
      long score;
    };
    std::vector<Fr> st{{L.start, 0, 0}};
    std::vector<int> pathNodes{L.start};
    while (!st.empty()) {
      Fr &f = st.back();
      if (f.node == L.end) {
        std::string w;
        for (int n : pathNodes)
          if (!isFillerWord(d, L.nodes[n].base)) w += (w.empty() ? "" : " ") + L.nodes[n].base;
        pathScores[w].insert(f.score);
        st.pop_back();
        pathNodes.pop_back();
        continue;
      }
      if (f.next >= L.nodes[f.node].out.size()) {
        st.pop_back();
        pathNodes.pop_back();
        continue;
      }
      int li = L.nodes[f.node].out[f.next++];
      long sc = f.score + L.links[li].ascr;
      int to = L.links[li].to;
      st.push_back({to, 0, sc});
      pathNodes.push_back(to);
    }
  }
  {
    hyp_iter_t *it = decoder_nbest(d);
    long prev = 0;
    int k = 0;
    std::set<std::string> distinct;
    for (; it && k < 200; it = hyp_iter_next(it), ++k) {
      int32 sc = 0;
      const char *h = hyp_iter_hyp(it, &sc);
      std::string hs = h ? h : "";
      // The statement orders N-best scores and ties hypotheses to lattice paths by word
      // sequence; it does not say that an N-best score is a start-to-end path score (A*
      // seeds every node starting at frame 0, so it also reports paths that skip the
      // synthetic start link).  Such cases are counted, not judged.
      if (k == 0) {
        ctx.labelIf((long)sc > B, "nbest:first-scores-above-best-start-end-path");
        ctx.labelIf((long)sc == B, "nbest:first-equals-best-path");
      }
      if (k > 0)
        PBT_CHECK((long)sc <= prev, "nbest-order", when << ": N-best hypothesis " << k << " scores " << sc << " after " << prev);
      prev = sc;
      distinct.insert(hs);
      if (enumerated) {
        auto ps = pathScores.find(hs);
        PBT_CHECK(ps != pathScores.end(), "nbest-not-a-lattice-path", when << ": N-best hypothesis '" << hs << "' is not the word sequence of any start-to-end path (" << pathScores.size() << " word sequences over " << npaths << " paths, e.g. '" << (pathScores.empty() ? std::string("-") : pathScores.begin()->first) << "'); lattice: " << dumpLat(L));
        ctx.labelIf(ps->second.count((long)sc) == 0, "nbest:score-is-not-a-start-end-path-score");
      }
      // its segmentation is a chain of linked nodes
      seg_iter_t *si = hyp_iter_seg(it);
      std::vector<Seg> segs;
      for (; si; si = seg_iter_next(si)) {
        Seg s;
        s.word = seg_iter_word(si);
        seg_iter_frames(si, &s.sf, &s.ef);
        segs.push_back(s);
      }
      std::vector<int> chain;
      PBT_CHECK(findChain(L, segs, 0, -1, chain), "nbest-segmentation-not-in-lattice", when << ": segmentation of N-best hypothesis '" << hs << "' is not a chain of linked lattice nodes");
    }
    if (it) {
      hyp_iter_free(it);
      ctx.label("nbest:stopped-at-200");
    }
    ctx.labelIf(k >= 2, "nbest>=2");
    ctx.labelIf(!enumerated, "paths>20000(not-enumerated)");
    if (distinct.size() >= 2) ctx.nontrivial = true;
    PBT_CHECK(k >= 1, "nbest-empty", when << ": decoder_nbest produced nothing on a lattice with " << npaths << " paths");
  }
  return Verdict::pass();
}


Verdict oracleC14(decoder_t *d, int frate, const Obs &o, double start, int level, bool final, Ctx &ctx);
std::string fmt3(double x);

Verdict judge(decoder_t *d, const Case &k, const Obs &o, bool final, long T, const fsa::Fsa &gplus, const fsa::Fsa &gEps, int which, Ctx &ctx) {
  switch (which) {
  case 0: return oracleC01(d, k, o, final, gplus, ctx);
  case 1: return oracleC03(d, o, final, T, ctx);
  case 4: return oracleC14(d, gFrate[k.decIdx], o, k.jsonStart, k.jsonLevel, final, ctx);
  default: {
    lattice_t *dag = decoder_lattice(d);
    if (!dag) {
      ctx.label(final ? "lattice:NULL(final)" : "lattice:NULL(partial)");
      return Verdict::pass();
    }
    ctx.label(final ? "lattice:final" : "lattice:partial");
    return which == 2 ? oracleC11(d, dag, o, gEps, final, ctx) : oracleC12(d, dag, final, ctx);
  }
  }
}


// ------------------------------------------------------------------ C14: JSON
std::string fmt3(double x) {
  char b[64];
  snprintf(b, sizeof b, "%.3f", x);
  return b;
}

const std::vector<std::string> &hostileWords() {
  static std::vector<std::string> v = {"say\"x", "back\\slash", "q\"\\\"uote", "caf\xc3\xa9", "\xe6\x97\xa5\xe6\x9c\xac", std::string(200, 'x'),
                                       "a/b", "ctl\x01x", "del\x7fx", "{brace}", "'apos", "\\", "\"", "\\n", "tab\\t"};
  return v;
}

Verdict checkEntry(const json::Value &v, const std::string &b, const std::string &dd, const std::string &p, const std::string &t, const std::string &where) {
  PBT_CHECK(v.t == json::Value::OBJ, "json-structure", where << " is not an object");
  const json::Value *jb = v.get("b"), *jd = v.get("d"), *jp = v.get("p"), *jt = v.get("t");
  PBT_CHECK(jb && jd && jp && jt, "json-structure", where << " lacks one of b,d,p,t");
  PBT_CHECK(jb->t == json::Value::NUM && jd->t == json::Value::NUM && jp->t == json::Value::NUM && jt->t == json::Value::STR, "json-structure", where << ": wrong field types");
  PBT_CHECK(jt->s == t, "json-text-field", where << ": t='" << jt->s << "' but the iterator says '" << t << "'");
  PBT_CHECK(jb->s == b, "json-start-field", where << ": b=" << jb->s << " but frame index / frame rate + offset gives " << b);
  PBT_CHECK(jd->s == dd, "json-duration-field", where << ": d=" << jd->s << " expected " << dd);
  PBT_CHECK(jp->s == p, "json-probability-field", where << ": p=" << jp->s << " expected " << p);
  return Verdict::pass();
}

Verdict oracleC14(decoder_t *d, int frate, const Obs &o, double start, int level, bool final, Ctx &ctx) {
  const char *when = final ? "final" : "partial";
  alignment_t *al = level > 0 ? decoder_alignment(d) : NULL;
  const char *js = decoder_result_json(d, start, level);
  if (level > 0 && al == NULL) {
    PBT_CHECK(js == NULL, "json-without-alignment", when << ": level " << level << " JSON returned although decoder_alignment is NULL");
    ctx.label("json:NULL(no-alignment)");
    return Verdict::pass();
  }
  PBT_CHECK(js != NULL, "json-null", when << ": decoder_result_json returned NULL (level " << level << ")");
  std::string text(js);
  size_t alloc = __sanitizer_get_allocated_size(d->json_result);
  PBT_CHECK(text.size() + 1 == alloc, "json-buffer-length", when << ": JSON is " << text.size() << " bytes + NUL in a buffer of " << alloc);
  PBT_CHECK(!text.empty() && text.back() == '\n', "json-newline", when << ": JSON line does not end in a newline");
  PBT_CHECK(text.find('\n') == text.size() - 1, "json-newline", when << ": JSON contains a newline before its end: " << text);
  std::string body = text.substr(0, text.size() - 1);
  json::Parser ps(body);
  json::Value root;
  bool ok = ps.value(root) && (ps.ws(), ps.i == body.size());
  if (!ok) {
    bool hostile = false;
    for (auto &s : o.segs)
      for (auto &h : hostileWords())
        if (s.word == h && (h.find('"') != std::string::npos || h.find('\\') != std::string::npos || h.find('\x01') != std::string::npos)) hostile = true;
    return Verdict::fail(hostile ? "json-invalid:unescaped-string" : "json-invalid", Msg() << when << ": not valid JSON (" << (ps.err.empty() ? "trailing data" : ps.err) << "): " << body);
  }
  logmath_t *lm = decoder_logmath(d);
  std::string hyp = o.hasHyp ? o.hyp : "";
  Verdict v = checkEntry(root, fmt3(start), fmt3((double)o.nFrames / frate), fmt3(logmath_exp(lm, decoder_prob(d))), hyp, "top level");
  if (!v.ok) return v;
  const json::Value *w = root.get("w");
  PBT_CHECK(w && w->t == json::Value::ARR, "json-structure", "top level lacks the w list");
  if (level == 0) {
    PBT_CHECK(w->arr.size() == o.segs.size(), "json-word-count", when << ": " << w->arr.size() << " entries in w, " << o.segs.size() << " segments from the iterator");
    for (size_t i = 0; i < o.segs.size(); ++i) {
      auto &s = o.segs[i];
      v = checkEntry(w->arr[i], fmt3(start + (double)s.sf / frate), fmt3((double)(s.ef + 1 - s.sf) / frate), fmt3(logmath_exp(lm, s.prob)), s.word, "w[" + std::to_string(i) + "]");
      if (!v.ok) return v;
      PBT_CHECK(w->arr[i].get("w") == nullptr, "json-structure", "level 0 entry has a nested list");
    }
  } else {
    size_t wi = 0;
    for (alignment_iter_t *it = alignment_words(al); it; it = alignment_iter_next(it), ++wi) {
      PBT_CHECK(wi < w->arr.size(), "json-word-count", when << ": fewer word entries than alignment words");
      int st = 0, du = 0;
      int sc = alignment_iter_seg(it, &st, &du);
      std::string wh = "w[" + std::to_string(wi) + "]";
      v = checkEntry(w->arr[wi], fmt3(start + (double)st / frate), fmt3((double)du / frate), fmt3(logmath_exp(lm, sc)), alignment_iter_name(it), wh);
      if (!v.ok) return v;
      const json::Value *pw = w->arr[wi].get("w");
      PBT_CHECK(pw && pw->t == json::Value::ARR, "json-structure", wh << " lacks the phone list");
      size_t pi = 0;
      for (alignment_iter_t *pit = alignment_iter_children(it); pit; pit = alignment_iter_next(pit), ++pi) {
        PBT_CHECK(pi < pw->arr.size(), "json-word-count", wh << ": fewer phone entries than alignment phones");
        sc = alignment_iter_seg(pit, &st, &du);
        std::string ph = wh + ".w[" + std::to_string(pi) + "]";
        v = checkEntry(pw->arr[pi], fmt3(start + (double)st / frate), fmt3((double)du / frate), fmt3(logmath_exp(lm, sc)), alignment_iter_name(pit), ph);
        if (!v.ok) return v;
        const json::Value *sw = pw->arr[pi].get("w");
        if (level == 1) PBT_CHECK(sw == nullptr, "json-structure", ph << " has a state list at level 1");
        else {
          PBT_CHECK(sw && sw->t == json::Value::ARR, "json-structure", ph << " lacks the state list at level 2");
          size_t si = 0;
          for (alignment_iter_t *sit = alignment_iter_children(pit); sit; sit = alignment_iter_next(sit), ++si) {
            PBT_CHECK(si < sw->arr.size(), "json-word-count", ph << ": fewer state entries than alignment states");
            sc = alignment_iter_seg(sit, &st, &du);
            v = checkEntry(sw->arr[si], fmt3(start + (double)st / frate), fmt3((double)du / frate), fmt3(logmath_exp(lm, sc)), alignment_iter_name(sit), ph + ".w[" + std::to_string(si) + "]");
            if (!v.ok) return v;
            PBT_CHECK(sw->arr[si].get("w") == nullptr, "json-structure", "state entry has a nested list");
          }
          PBT_CHECK(si == sw->arr.size(), "json-word-count", ph << ": more state entries than alignment states");
        }
      }
      PBT_CHECK(pi == pw->arr.size(), "json-word-count", wh << ": more phone entries than alignment phones");
    }
    PBT_CHECK(wi == w->arr.size(), "json-word-count", when << ": more word entries than alignment words");
  }
  ctx.label("json:level" + std::to_string(level));
  ctx.labelIf(w->arr.empty(), "json:empty-word-list");
  if (w->arr.size() >= 2) ctx.nontrivial = true;
  return Verdict::pass();
}

// --------------------------------------------------------------------- runner
enum Which { W_C01 = 0, W_C03 = 1, W_C11 = 2, W_C12 = 3, W_C14 = 4 };

Verdict runCase(Choices &c, Ctx &ctx, Which which) {
  Case k = genCase(c, which == W_C01 ? 25 : which == W_C03 ? 15 : 20, which == W_C14);
  c_probeKnown = c.coin(4);
  ctx.describe(caseDesc(k));
  decoder_t *d = gDec[k.decIdx];
  applySearchCfg(d, k.sc);
  int rc = install(d, k.gram);
  PBT_CHECK(rc == 0, std::string("install-refused:") + (k.gram.kind == Gram::JSGF ? "jsgf" : k.gram.kind == Gram::FSG ? "fsg" : "align"),
            "valid grammar over dictionary words was refused (rc=" << rc << "): " << k.gram.desc);
  fsa::Fsa gplus = augmentedExplicitNulls(d);
  fsa::Fsa gEps = augmented(d);
  fsg_search_t *fs = (fsg_search_t *)d->search;
  ctx.label(k.gram.kind == Gram::JSGF ? "door:jsgf" : k.gram.kind == Gram::FSG ? "door:fsg" : "door:align");
  ctx.label("audio:" + k.audioDesc.substr(0, k.audioDesc.find('(')));
  ctx.labelIf(fsa::accepts(k.gram.own, {}, false), "grammar:accepts-empty-sentence");

  PBT_CHECK(decoder_start_utt(d) == 0, "start-utt-failed", "decoder_start_utt failed");
  long returned = 0, supplied = 0;
  size_t pos = 0;
  int partials = 0;
  bool partialHyp = false;
  for (auto &ch : k.chunks) {
    int16_t *blk = (int16_t *)malloc(ch.len ? ch.len * 2 : 1);
    if (ch.len) memcpy(blk, k.audio.data() + pos, ch.len * 2);
    int before = decoder_n_frames(d);
    int r = decoder_process_int16(d, blk, ch.len, ch.noSearch, k.fullUtt);
    free(blk);
    pos += ch.len;
    supplied += (long)ch.len;
    PBT_CHECK(r >= 0, "process-error", "decoder_process_int16 returned " << r);
    if (which == W_C03) {
      PBT_CHECK(decoder_n_frames(d) - before == r, "n-frames-vs-returned", "decoder_n_frames moved by " << decoder_n_frames(d) - before << " across a call that returned " << r);
      if (ch.noSearch) PBT_CHECK(r == 0, "no-search-searched", "a no_search call returned " << r << " searched frames");
    }
    returned += r;
    PBT_CHECK(returned == fs->frame, "returned-vs-search-frame", "processing calls returned " << returned << " frames in total, the search stepped " << fs->frame);
    if (ch.queryAfter && !k.fullUtt) {
      Obs o = observe(d);
      ++partials;
      partialHyp = partialHyp || o.hasHyp;
      Verdict v = judge(d, k, o, false, returned, gplus, gEps, which, ctx);
      if (!v.ok) return v;
    }
  }
  long before = fs->frame;
  PBT_CHECK(decoder_end_utt(d) == 0, "end-utt-failed", "decoder_end_utt failed");
  long T = fs->frame;
  long inEnd = T - before;
  Obs o = observe(d);
  Verdict v = judge(d, k, o, true, T, gplus, gEps, which, ctx);
  if (!v.ok) return v;
  if (which == W_C03) {
    long want = frameFormula((long)k.audio.size(), 410, 160);
    PBT_CHECK(returned + inEnd == want, "frames-searched-vs-front-end", "N=" << k.audio.size() << " samples give " << want << " front-end frames; processing calls returned " << returned << " and end_utt searched " << inEnd);
    if (k.fullUtt) PBT_CHECK(returned == want, "full-utt-frame-count", "full_utt call returned " << returned << " of " << want << " frames");
    ctx.labelIf(want <= 3, "frames:0-3");
    ctx.labelIf(partials > 0, "partial-queried");
  }
  ctx.labelIf(!o.hasHyp, "final:no-hypothesis");
  if (!o.hasHyp) {
    ctx.label(std::string("no-hyp:") + (k.gram.kind == Gram::JSGF ? "jsgf" : k.gram.kind == Gram::FSG ? "fsg" : "align") + (k.sc.beam == 0 ? ":open-beams" : k.sc.beam > 1e-20 ? ":tight-beams" : ":default-beams") + (T < 20 ? ":<20fr" : ""));
    ctx.labelIf(o.hasSeg, "no-hyp:but-segmentation(fillers-only)");
  }
  ctx.labelIf(partials > 0, "partials-taken");
  ctx.labelIf(partialHyp, "partial-hyp-non-null");
  if (which == W_C01) {
    std::vector<std::string> W = project(d, o.segs);
    ctx.nontrivial = (o.hasHyp && W.size() >= 2) || partialHyp;
    ctx.labelIf(o.hasHyp && W.size() >= 2, "final:>=2-words");
  }
  return Verdict::pass();
}

Verdict propC01(Choices &c, Ctx &ctx) { return runCase(c, ctx, W_C01); }
Verdict propC03(Choices &c, Ctx &ctx) { return runCase(c, ctx, W_C03); }
Verdict propC11(Choices &c, Ctx &ctx) { return runCase(c, ctx, W_C11); }
Verdict propC12(Choices &c, Ctx &ctx) { return runCase(c, ctx, W_C12); }
Verdict propC14(Choices &c, Ctx &ctx) { return runCase(c, ctx, W_C14); }

void initDecode() {
  err_set_loglevel(ERR_FATAL);
  DecCfg a;
  gDec[0] = makeDecoder(a);
  DecCfg b;
  b.compallsen = true;
  gDec[1] = makeDecoder(b);
  DecCfg h;
  h.dict = verifDir() + "/data/hostile.dic";
  gDec[2] = makeDecoder(h);
  h.frate = 50;
  gDec[3] = makeDecoder(h);
  h.frate = 125;
  gDec[4] = makeDecoder(h);
  if (!gDec[0] || !gDec[1] || !gDec[2] || !gDec[3] || !gDec[4]) {
    fprintf(stderr, "decoder_init failed in harness init\n");
    exit(2);
  }
  audio::goforward();
  audio::goforwardFr();
}

} // namespace

namespace pbt {
const PropDef kProps[] = {
    {"C01", propC01, true, 60000, initDecode},
    {"C03", propC03, true, 60000, initDecode},
    {"C11", propC11, true, 20000, initDecode},
    {"C12", propC12, true, 20000, initDecode},
    {"C14", propC14, true, 30000, initDecode},
    {nullptr, nullptr, false, 0, nullptr},
};
}
