// JSGF AST, generator, printer and reference evaluators shared by the JSGF
// compilation check (C05) and the decoding harnesses.
#pragma once
#include "fsa.h"
#include "pbt.h"

#include <cmath>
#include <map>
#include <set>
#include <string>
#include <vector>

namespace jsgfgen {
using pbt::Choices;

struct Node {
  enum K { TOK, REF, SEQ, ALT, GROUP, OPT, STAR, PLUS, NUL, VOID_ } k = TOK;
  std::string s;             // word, or rule name without <>
  std::vector<Node> kids;
  std::vector<std::string> wts; // ALT: weight text per alternative ("" = none)
  std::vector<std::string> tags;
  bool quoted = false;
};

struct Rule {
  std::string name;
  Node body; // always ALT
  bool pub = false;
};

struct Grammar {
  std::vector<Rule> rules;
  std::vector<std::string> words; // alphabet, index = letter
  std::string klass = "plain";    // recursion / refusal class
  bool mustRefuse = false, mayRefuse = false;
  std::set<std::string> ops;
};

typedef std::set<std::string> Lang; // each char = 'a' + word index

Lang concat(const Lang &A, const Lang &B, size_t k) {
  Lang r;
  for (auto &a : A)
    for (auto &b : B)
      if (a.size() + b.size() <= k) r.insert(a + b);
  return r;
}

struct Evaluator {
  const Grammar &g;
  size_t k;
  std::map<std::string, Lang> rl;
  Evaluator(const Grammar &g_, size_t k_) : g(g_), k(k_) {}
  int wordIdx(const std::string &w) const {
    for (size_t i = 0; i < g.words.size(); ++i)
      if (g.words[i] == w) return (int)i;
    return -1;
  }
  Lang eval(const Node &n) {
    switch (n.k) {
    case Node::TOK: return Lang{std::string(1, (char)('a' + wordIdx(n.s)))};
    case Node::REF: {
      auto it = rl.find(n.s);
      return it == rl.end() ? Lang() : it->second;
    }
    case Node::SEQ: {
      Lang r{""};
      for (auto &c : n.kids) r = concat(r, eval(c), k);
      return r;
    }
    case Node::ALT: {
      Lang r;
      for (auto &c : n.kids) {
        Lang x = eval(c);
        r.insert(x.begin(), x.end());
      }
      return r;
    }
    case Node::GROUP: return eval(n.kids[0]);
    case Node::OPT: {
      Lang r = eval(n.kids[0]);
      r.insert("");
      return r;
    }
    case Node::STAR:
    case Node::PLUS: {
      Lang x = eval(n.kids[0]);
      Lang s{""};
      for (;;) {
        Lang nx = concat(s, x, k);
        size_t before = s.size();
        s.insert(nx.begin(), nx.end());
        if (s.size() == before) break;
      }
      return n.k == Node::STAR ? s : concat(x, s, k);
    }
    case Node::NUL: return Lang{""};
    case Node::VOID_: return Lang();
    }
    return Lang();
  }
  void fixpoint() {
    for (auto &r : g.rules) rl[r.name] = Lang();
    for (int iter = 0; iter < 200; ++iter) {
      bool changed = false;
      for (auto &r : g.rules) {
        Lang x = eval(r.body);
        if (x != rl[r.name]) {
          rl[r.name] = x;
          changed = true;
        }
      }
      if (!changed) break;
    }
  }
};

// best probability per sentence for grammars without closures/optionals
typedef std::map<std::string, double> WLang;
struct WEval {
  const Grammar &g;
  size_t k;
  std::map<std::string, const Rule *> rules;
  WEval(const Grammar &g_, size_t k_) : g(g_), k(k_) {
    for (auto &r : g.rules) rules[r.name] = &r;
  }
  int wordIdx(const std::string &w) const {
    for (size_t i = 0; i < g.words.size(); ++i)
      if (g.words[i] == w) return (int)i;
    return -1;
  }
  WLang eval(const Node &n) {
    switch (n.k) {
    case Node::TOK: return WLang{{std::string(1, (char)('a' + wordIdx(n.s))), 0.0}};
    case Node::REF: return eval(rules[n.s]->body);
    case Node::GROUP: return eval(n.kids[0]);
    case Node::NUL: return WLang{{"", 0.0}};
    case Node::SEQ: {
      WLang r{{"", 0.0}};
      for (auto &c : n.kids) {
        WLang x = eval(c), nr;
        for (auto &a : r)
          for (auto &b : x)
            if (a.first.size() + b.first.size() <= k) {
              double p = a.second + b.second;
              auto it = nr.find(a.first + b.first);
              if (it == nr.end() || it->second < p) nr[a.first + b.first] = p;
            }
        r.swap(nr);
      }
      return r;
    }
    case Node::ALT: {
      double norm = 0;
      std::vector<double> w;
      for (size_t i = 0; i < n.kids.size(); ++i) {
        // the library parses weights into a float
        double x = n.wts[i].empty() ? 1.0 : (double)(float)atof(n.wts[i].c_str());
        w.push_back(x);
        norm += x;
      }
      if (norm == 0) norm = 1;
      WLang r;
      for (size_t i = 0; i < n.kids.size(); ++i) {
        WLang x = eval(n.kids[i]);
        double lp = w[i] > 0 ? std::log(w[i] / norm) : -1e30;
        for (auto &b : x) {
          double p = lp + b.second;
          auto it = r.find(b.first);
          if (it == r.end() || it->second < p) r[b.first] = p;
        }
      }
      return r;
    }
    default: return WLang();
    }
  }
};

// ---------------------------------------------------------------- generator
struct Gen {
  Choices &c;
  Grammar &g;
  int nrules;
  bool noQuote = false; // decode harnesses: quoted tokens are not dictionary words
  Gen(Choices &c_, Grammar &g_) : c(c_), g(g_) {}

  std::string weightText() {
    static const char *W[] = {"", "", "", "1", "2", "0.5", "3.25", "10", "0.1", "1e-1", "2.5e-1", "7"};
    return W[c.range(0, 11)];
  }
  void maybeTag(Node &n) {
    if (c.coin(12)) {
      static const char *T[] = {"{tag}", "{ a tag }", "{x=\\}}", "{}", "{t1}{t2}"};
      n.tags.push_back(T[c.range(0, 4)]);
    }
  }
  Node tok() {
    Node n;
    n.k = Node::TOK;
    n.s = g.words[c.range(0, (int64_t)g.words.size() - 1)];
    bool q = c.coin(8);
    n.quoted = q && !noQuote;
    return n;
  }
  Node atom(int rule, int depth) {
    Node n;
    size_t kind = depth <= 0 ? c.weighted({40, rule + 1 < nrules ? 12 : 0})
                             : c.weighted({40, rule + 1 < nrules ? 12 : 0, 10, 10, 8, 6, 3});
    switch (kind) {
    case 0: n = tok(); break;
    case 1:
      n.k = Node::REF;
      n.s = "r" + std::to_string(c.range(rule + 1, nrules - 1));
      g.ops.insert("ref");
      break;
    case 2:
      n.k = Node::GROUP;
      n.kids.push_back(alt(rule, depth - 1));
      g.ops.insert("group");
      break;
    case 3:
      n.k = Node::OPT;
      n.kids.push_back(alt(rule, depth - 1));
      g.ops.insert("optional");
      break;
    case 4:
    case 5: {
      n.k = kind == 4 ? Node::STAR : Node::PLUS;
      Node inner;
      size_t ik = c.weighted({5, rule + 1 < nrules ? 2 : 0, 4, 1});
      if (ik == 0) inner = tok();
      else if (ik == 1) {
        inner.k = Node::REF;
        inner.s = "r" + std::to_string(c.range(rule + 1, nrules - 1));
      } else {
        inner.k = ik == 2 ? Node::GROUP : Node::OPT;
        inner.kids.push_back(alt(rule, depth - 1));
      }
      n.kids.push_back(inner);
      g.ops.insert(kind == 4 ? "star" : "plus");
      break;
    }
    default:
      n.k = Node::NUL;
      g.ops.insert("null");
      break;
    }
    maybeTag(n);
    return n;
  }
  Node seq(int rule, int depth) {
    Node n;
    n.k = Node::SEQ;
    int len = (int)c.weighted({5, 4, 2}) + 1;
    for (int i = 0; i < len; ++i) n.kids.push_back(atom(rule, depth));
    if (len > 1) g.ops.insert("sequence");
    return n;
  }
  Node alt(int rule, int depth) {
    Node n;
    n.k = Node::ALT;
    int cnt = (int)c.weighted({5, 4, 2}) + 1;
    bool weighted = c.coin(35);
    for (int i = 0; i < cnt; ++i) {
      n.kids.push_back(seq(rule, depth));
      n.wts.push_back(weighted ? weightText() : "");
    }
    if (cnt > 1) g.ops.insert("alternatives");
    for (auto &w : n.wts)
      if (!w.empty()) g.ops.insert("weights");
    return n;
  }
};

Node mkTok(const std::string &w) {
  Node n;
  n.k = Node::TOK;
  n.s = w;
  return n;
}
Node mkRef(const std::string &r) {
  Node n;
  n.k = Node::REF;
  n.s = r;
  return n;
}
Node mkSeq(std::vector<Node> kids) {
  Node n;
  n.k = Node::SEQ;
  n.kids = kids;
  return n;
}
Node mkWrap(Node::K k, Node inner) {
  Node a;
  a.k = Node::ALT;
  a.kids.push_back(inner.k == Node::SEQ ? inner : mkSeq({inner}));
  a.wts.push_back("");
  Node n;
  n.k = k;
  n.kids.push_back(a);
  return n;
}

void addAlt(Node &body, Node seqNode, bool first) {
  if (first) {
    body.kids.insert(body.kids.begin(), seqNode);
    body.wts.insert(body.wts.begin(), "");
  } else {
    body.kids.push_back(seqNode);
    body.wts.push_back("");
  }
}

// ------------------------------------------------------------------ printer
struct Printer {
  Choices &c;
  std::string out;
  bool plainLayout;
  Printer(Choices &c_) : c(c_) { plainLayout = !c.coin(60); }
  void gap() {
    if (plainLayout) {
      out += " ";
      return;
    }
    static const char *G[] = {" ", "  ", "\n", "\t", " /* note */ ", " // eol\n", "\r\n", " /* a\n b */ "};
    out += G[c.weighted({10, 2, 3, 2, 2, 2, 1, 1})];
  }
  void node(const Node &n) {
    switch (n.k) {
    case Node::TOK: out += n.quoted ? "\"" + n.s + "\"" : n.s; break;
    case Node::REF: out += "<" + n.s + ">"; break;
    case Node::NUL: out += "<NULL>"; break;
    case Node::VOID_: out += "<VOID>"; break;
    case Node::SEQ:
      for (size_t i = 0; i < n.kids.size(); ++i) {
        if (i) gap();
        node(n.kids[i]);
      }
      break;
    case Node::ALT:
      for (size_t i = 0; i < n.kids.size(); ++i) {
        if (i) {
          gap();
          out += "|";
          gap();
        }
        if (!n.wts[i].empty()) {
          out += "/" + n.wts[i] + "/";
          gap();
        }
        node(n.kids[i]);
      }
      break;
    case Node::GROUP:
      out += "(";
      gap();
      node(n.kids[0]);
      gap();
      out += ")";
      break;
    case Node::OPT:
      out += "[";
      gap();
      node(n.kids[0]);
      gap();
      out += "]";
      break;
    case Node::STAR:
    case Node::PLUS:
      node(n.kids[0]);
      out += n.k == Node::STAR ? "*" : "+";
      break;
    }
    for (auto &t : n.tags) {
      if (!plainLayout && c.coin(50)) out += " ";
      out += t;
    }
  }
  std::string grammar(const Grammar &g) {
    static const char *H[] = {"#JSGF V1.0;", "#JSGF V1.0 UTF-8;", "#JSGF V1.0 UTF-8 en;", "\xEF\xBB\xBF#JSGF V1.0;", "#JSGF;"};
    out = H[plainLayout ? 0 : c.weighted({6, 2, 2, 1, 1})];
    gap();
    out += "grammar";
    out += " ";
    out += "gram;";
    out += "\n";
    for (auto &r : g.rules) {
      if (!plainLayout && c.coin(20)) out += "// rule " + r.name + "\n";
      if (r.pub) out += "public ";
      out += "<" + r.name + ">";
      gap();
      out += "=";
      gap();
      node(r.body);
      gap();
      out += ";\n";
    }
    return out;
  }
};


// Thompson construction of the harness' own acceptor for a NON-recursive
// grammar (rule references are inlined; the reference graph must be a DAG).
struct NfaBuilder {
  const Grammar &g;
  fsa::Fsa a;
  std::map<std::string, const Rule *> rules;
  bool ok = true;
  explicit NfaBuilder(const Grammar &g_) : g(g_) {
    for (auto &r : g.rules) rules[r.name] = &r;
  }
  int st() { return a.nstate++; }
  void eps(int f, int t) { a.arcs.push_back({f, t, "", 0}); }
  // builds n between fresh states, returns (entry, exit)
  std::pair<int, int> build(const Node &n, int depth = 0) {
    int s = st(), e = st();
    if (depth > 40) {
      ok = false;
      return {s, e};
    }
    switch (n.k) {
    case Node::TOK: a.arcs.push_back({s, e, n.s, 0}); break;
    case Node::NUL: eps(s, e); break;
    case Node::VOID_: break;
    case Node::REF: {
      auto it = rules.find(n.s);
      if (it == rules.end()) {
        ok = false;
        break;
      }
      auto p = build(it->second->body, depth + 1);
      eps(s, p.first);
      eps(p.second, e);
      break;
    }
    case Node::SEQ: {
      int cur = s;
      for (auto &c : n.kids) {
        auto p = build(c, depth + 1);
        eps(cur, p.first);
        cur = p.second;
      }
      eps(cur, e);
      break;
    }
    case Node::ALT:
      for (auto &c : n.kids) {
        auto p = build(c, depth + 1);
        eps(s, p.first);
        eps(p.second, e);
      }
      break;
    case Node::GROUP: {
      auto p = build(n.kids[0], depth + 1);
      eps(s, p.first);
      eps(p.second, e);
      break;
    }
    case Node::OPT: {
      auto p = build(n.kids[0], depth + 1);
      eps(s, p.first);
      eps(p.second, e);
      eps(s, e);
      break;
    }
    case Node::STAR:
    case Node::PLUS: {
      auto p = build(n.kids[0], depth + 1);
      eps(s, p.first);
      eps(p.second, e);
      eps(p.second, p.first);
      if (n.k == Node::STAR) eps(s, e);
      break;
    }
    }
    return {s, e};
  }
  fsa::Fsa run(const std::string &rule) {
    auto p = build(rules[rule]->body);
    a.start = p.first;
    a.fin = p.second;
    return a;
  }
};

} // namespace jsgfgen
