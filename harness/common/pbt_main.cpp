// Engine: rapidcheck generates and shrinks the choice sequence; this file owns
// case isolation (fork), crash classification, known-finding suppression,
// counters/evidence and the plain replay path (no rapidcheck involved).
#include "pbt.h"

#include <rapidcheck.h>

#include <algorithm>
#include <cerrno>
#include <chrono>
#include <csignal>
#include <cstdlib>
#include <fcntl.h>
#include <fstream>
#include <iostream>
#include <poll.h>
#include <sys/types.h>
#include <sys/wait.h>
#include <sys/prctl.h>
#include <unistd.h>
#include <unordered_set>

using namespace pbt;

namespace {

struct Outcome {
  Verdict v;
  Ctx ctx;
  bool inconclusive = false; // timeout
};

struct Known {
  std::string key;  // may end in '*'
  std::string text;
};

struct State {
  const PropDef *prop = nullptr;
  bool forked = false;
  std::string statsPath, failPath, knownPath, stderrPath;
  double budget = 1e18;
  uint64_t seed = 0;
  size_t maxlen = 256, cases = 100, explicitLen = 48, shrinkEvals = 400;
  double shrinkSeconds = 40;
  uint64_t shrinkEvaluations = 0;
  std::vector<Known> known;

  // counters
  uint64_t evaluations = 0, nontrivial = 0, inconclusive = 0, skippedBudget = 0,
           truncated = 0, nontrivialCapped = 0;
  std::map<std::string, uint64_t> classes, excludedKnown, otherFailures;
  std::unordered_set<uint64_t> ntHashes;
  std::vector<std::string> samples; // reservoir
  std::vector<std::string> timeoutSamples;
  std::map<std::string, uint64_t> timeoutsWhere; // library function a timed-out case was in
  uint64_t sampleSeen = 0, lcg = 88172645463325252ULL;
  std::string firstSample, lastSample;

  // failure tracking
  bool haveFail = false;
  std::string failKey, failDetail, failDesc;
  std::vector<uint32_t> failChoices;

  std::chrono::steady_clock::time_point t0;
} S;

uint64_t fnv(const void *p, size_t n, uint64_t h = 1469598103934665603ULL) {
  const unsigned char *b = (const unsigned char *)p;
  for (size_t i = 0; i < n; ++i) {
    h ^= b[i];
    h *= 1099511628211ULL;
  }
  return h;
}

std::string esc(const std::string &s) {
  std::string o;
  for (unsigned char c : s) {
    if (c == '\\') o += "\\\\";
    else if (c == '\n') o += "\\n";
    else if (c == '\r') o += "\\r";
    else o += (char)c;
  }
  return o;
}
std::string unesc(const std::string &s) {
  std::string o;
  for (size_t i = 0; i < s.size(); ++i) {
    if (s[i] == '\\' && i + 1 < s.size()) {
      ++i;
      if (s[i] == 'n') o += '\n';
      else if (s[i] == 'r') o += '\r';
      else o += s[i];
    } else
      o += s[i];
  }
  return o;
}
std::string jsonStr(const std::string &s) {
  std::string o = "\"";
  char buf[8];
  for (unsigned char c : s) {
    if (c == '"') o += "\\\"";
    else if (c == '\\') o += "\\\\";
    else if (c == '\n') o += "\\n";
    else if (c == '\t') o += "\\t";
    else if (c < 0x20 || c >= 0x7f) {
      snprintf(buf, sizeof buf, "\\u%04x", c);
      o += buf;
    } else
      o += (char)c;
  }
  return o + "\"";
}

double elapsed() {
  return std::chrono::duration<double>(std::chrono::steady_clock::now() - S.t0)
      .count();
}

// '*' in a listed signature matches any run of characters
bool globMatch(const char *p, const char *t) {
  for (; *p; ++p, ++t) {
    if (*p == '*') {
      while (p[1] == '*') ++p;
      if (!p[1]) return true;
      for (; *t; ++t)
        if (globMatch(p + 1, t)) return true;
      return false;
    }
    if (*p != *t) return false;
  }
  return !*t;
}

const Known *matchKnown(const std::string &key) {
  for (auto &k : S.known)
    if (globMatch(k.key.c_str(), key.c_str())) return &k;
  return nullptr;
}

} // namespace
bool pbt::isKnown(const std::string &key) { return matchKnown(key) != nullptr; }
namespace {
void loadKnown() {
  if (S.knownPath.empty()) return;
  std::ifstream f(S.knownPath);
  std::string line;
  std::string want = std::string("property=") + S.prop->id;
  while (std::getline(f, line)) {
    if (line.compare(0, 6, "known:") != 0) continue;
    std::istringstream is(line.substr(6));
    std::string p, sig, rest;
    is >> p >> sig;
    std::getline(is, rest);
    if (p != want || sig.compare(0, 4, "sig=") != 0) continue;
    S.known.push_back({sig.substr(4), rest});
  }
}

// ---- crash classification from the child's stderr ------------------------

std::string firstWord(const std::string &s, size_t pos) {
  size_t e = pos;
  while (e < s.size() && !isspace((unsigned char)s[e])) ++e;
  return s.substr(pos, e - pos);
}

bool allocatorFrame(const std::string &fn) {
  static const char *skip[] = {"malloc", "calloc", "realloc", "__ckd_", "ckd_",
                               "__interceptor_", "operator new", "listelem_",
                               "__listelem_", "strdup", "posix_memalign",
                               "glist_add", "__glist", "blkarray"};
  for (auto s : skip)
    if (fn.compare(0, strlen(s), s) == 0) return true;
  return false;
}

// first "in <function>" of a sanitizer stack starting at `from`, optionally
// skipping allocator frames
std::string stackFunc(const std::string &err, size_t from, bool skipAlloc) {
  size_t p = from;
  while ((p = err.find("\n    #", p)) != std::string::npos) {
    size_t eol = err.find('\n', p + 1);
    std::string line = err.substr(p + 1, eol == std::string::npos ? eol : eol - p - 1);
    size_t in = line.find(" in ");
    if (in != std::string::npos) {
      std::string fn = line.substr(in + 4);
      if (fn.compare(0, 23, "(anonymous namespace)::") == 0) fn = fn.substr(23);
      size_t cut = fn.find_first_of(" (");
      if (cut != std::string::npos) fn = fn.substr(0, cut);
      if (!(skipAlloc && allocatorFrame(fn)) && fn.compare(0, 2, "__") != 0)
        return fn;
    }
    if (eol == std::string::npos) break;
    p = eol;
    // a blank line ends the stack
    if (p + 1 < err.size() && err[p + 1] == '\n') break;
  }
  return "?";
}

std::string classifyDeath(const std::string &err, int status) {
  size_t p;
  if ((p = err.find("ERROR: AddressSanitizer: ")) != std::string::npos) {
    std::string kind = firstWord(err, p + 25);
    bool alloc = kind == "requested" || kind == "allocation-size-too-big" ||
                 kind == "calloc-overflow" || kind == "out";
    return "asan:" + kind + ":" + stackFunc(err, p, alloc);
  }
  if ((p = err.find("ERROR: LeakSanitizer")) != std::string::npos)
    return "leak:" + stackFunc(err, p, true);
  if ((p = err.find("runtime error: ")) != std::string::npos) {
    // kind from SUMMARY line if present
    std::string kind = "ub";
    size_t q = err.find("SUMMARY: UndefinedBehaviorSanitizer: ", p);
    if (q != std::string::npos) kind = firstWord(err, q + 37);
    return "ubsan:" + kind + ":" + stackFunc(err, p, false);
  }
  if ((p = err.find("Assertion `")) != std::string::npos) {
    // prog: file.c:123: func: Assertion `...' failed.
    size_t ls = err.rfind('\n', p);
    ls = ls == std::string::npos ? 0 : ls + 1;
    std::string line = err.substr(ls, p - ls);
    // split by ": "
    std::vector<std::string> parts;
    size_t a = 0, b;
    while ((b = line.find(": ", a)) != std::string::npos) {
      parts.push_back(line.substr(a, b - a));
      a = b + 2;
    }
    std::string fn = parts.size() >= 3 ? parts[parts.size() - 1] : "?";
    // clang prints the whole signature: keep the bare function name
    size_t par = fn.find('(');
    if (par != std::string::npos) fn = fn.substr(0, par);
    size_t sp = fn.find_last_of(" *");
    if (sp != std::string::npos) fn = fn.substr(sp + 1);
    return "assert:" + fn;
  }
  if ((p = err.find(") failed from ")) != std::string::npos && (err.find("alloc(") != std::string::npos)) {
    // ckd_alloc: "calloc(n,size) failed from /path/file.c(line)" then exit(-1)
    size_t a = p + 14;
    size_t e = err.find('(', a);
    std::string file = err.substr(a, e == std::string::npos ? e : e - a);
    size_t sl = file.rfind('/');
    if (sl != std::string::npos) file = file.substr(sl + 1);
    return "alloc-exit:" + file;
  }
  if ((p = err.rfind("FATAL: \"")) != std::string::npos) {
    size_t q = err.find('"', p + 8);
    std::string file = err.substr(p + 8, q - p - 8);
    size_t c = err.find(": ", q);
    std::string stem;
    if (c != std::string::npos) {
      size_t eol = err.find('\n', c);
      std::string msg = err.substr(c + 2, eol == std::string::npos ? eol : eol - c - 2);
      int words = 0;
      for (char ch : msg) {
        if (isalnum((unsigned char)ch)) stem += ch;
        else if (isspace((unsigned char)ch)) {
          if (++words >= 4) break;
          stem += '_';
        }
      }
    }
    return "fatal:" + file + ":" + stem;
  }
  if (WIFSIGNALED(status)) return "signal:" + std::to_string(WTERMSIG(status));
  if (WIFEXITED(status)) return "exit:" + std::to_string(WEXITSTATUS(status));
  return "died";
}

std::string slurp(const std::string &path) {
  std::ifstream f(path, std::ios::binary);
  std::ostringstream os;
  os << f.rdbuf();
  return os.str();
}

void serialize(int fd, const Verdict &v, const Ctx &c) {
  std::string o;
  o += std::string("V ") + (v.ok ? "ok" : "fail") + "\n";
  o += "K " + esc(v.key) + "\n";
  o += "D " + esc(v.detail) + "\n";
  o += std::string("N ") + (c.nontrivial ? "1" : "0") + "\n";
  for (auto &l : c.labels) o += "L " + esc(l) + "\n";
  o += "S " + esc(c.desc) + "\n";
  o += "E\n";
  size_t off = 0;
  while (off < o.size()) {
    ssize_t w = write(fd, o.data() + off, o.size() - off);
    if (w <= 0) break;
    off += (size_t)w;
  }
}

bool deserialize(const std::string &s, Verdict &v, Ctx &c) {
  std::istringstream is(s);
  std::string line;
  bool end = false;
  while (std::getline(is, line)) {
    if (line.size() < 1) continue;
    char t = line[0];
    std::string a = line.size() > 2 ? unesc(line.substr(2)) : "";
    switch (t) {
    case 'V': v.ok = (a == "ok"); break;
    case 'K': v.key = a; break;
    case 'D': v.detail = a; break;
    case 'N': c.nontrivial = (a == "1"); break;
    case 'L': c.labels.insert(a); break;
    case 'S': c.desc = a; break;
    case 'E': end = true; break;
    }
  }
  return end;
}

Outcome runInProcess(const std::vector<uint32_t> &ch) {
  Outcome o;
  Choices c(ch);
  try {
    o.v = S.prop->fn(c, o.ctx);
  } catch (const std::exception &e) {
    o.v = Verdict::fail("oracle-exception", std::string("the oracle could not read the library's answer: ") + e.what());
  }
  if (c.exhausted()) o.ctx.label("choices:truncated");
  return o;
}

Outcome runForked(const std::vector<uint32_t> &ch, int timeoutScale = 1) {
  Outcome o;
  int pfd[2];
  if (pipe(pfd) != 0) {
    perror("pipe");
    exit(2);
  }
  fflush(stdout);
  fflush(stderr);
  pid_t pid = fork();
  if (pid < 0) {
    perror("fork");
    exit(2);
  }
  if (pid == 0) {
    // never outlive the worker: a case that does not return must not keep a core busy after the run
    prctl(PR_SET_PDEATHSIG, SIGKILL);
    if (getppid() == 1) _exit(0);
    close(pfd[0]);
    int efd = open(S.stderrPath.c_str(), O_WRONLY | O_CREAT | O_TRUNC, 0644);
    if (efd >= 0) {
      dup2(efd, 2);
      close(efd);
    }
    Choices c(ch);
    Ctx ctx;
    ctx.earlyFd = pfd[1];
    Verdict v;
    try {
      v = S.prop->fn(c, ctx);
    } catch (const std::exception &e) {
      // e.g. the library handed the oracle a NULL where a string is documented
      v = Verdict::fail("oracle-exception", std::string("the oracle could not read the library's answer: ") + e.what());
    }
    if (c.exhausted()) ctx.label("choices:truncated");
    serialize(pfd[1], v, ctx);
    close(pfd[1]);
    _exit(0);
  }
  close(pfd[1]);
  std::string buf;
  char tmp[65536];
  int timeout = (S.prop->timeout_ms > 0 ? S.prop->timeout_ms : 60000) * timeoutScale;
  auto start = std::chrono::steady_clock::now();
  bool timedOut = false;
  for (;;) {
    int left = timeout - (int)std::chrono::duration_cast<std::chrono::milliseconds>(
                             std::chrono::steady_clock::now() - start)
                             .count();
    if (left <= 0) {
      timedOut = true;
      break;
    }
    struct pollfd pf = {pfd[0], POLLIN, 0};
    int r = poll(&pf, 1, left);
    if (r < 0) {
      if (errno == EINTR) continue;
      break;
    }
    if (r == 0) {
      timedOut = true;
      break;
    }
    ssize_t n = read(pfd[0], tmp, sizeof tmp);
    if (n <= 0) break;
    buf.append(tmp, (size_t)n);
  }
  close(pfd[0]);
  int status = 0;
  if (timedOut) {
    // ask where it is: the sanitizer runtime answers SIGSEGV with a stack trace of the interrupted code
    kill(pid, SIGSEGV);
    bool gone = false;
    for (int i = 0; i < 100 && !gone; ++i) {
      if (waitpid(pid, &status, WNOHANG) == pid) gone = true;
      else usleep(100000);
    }
    if (!gone) {
      kill(pid, SIGKILL);
      waitpid(pid, &status, 0);
    }
    std::string err = slurp(S.stderrPath);
    std::string where = "unknown", trace, lastFn;
    int nfn = 0;
    {
      std::istringstream is(err);
      std::string line;
      int shown = 0;
      while (std::getline(is, line)) {
        size_t in = line.find(" in ");
        if (line.find("    #") != 0 || in == std::string::npos) continue;
        if (shown++ < 14) trace += line + "\n";
        // the chain of library functions it was in, innermost first (the innermost alone depends on the instant)
        if (line.find("/src/") != std::string::npos && line.find("/harness/") == std::string::npos) {
          std::string f = line.substr(in + 4);
          f = f.substr(0, f.find(' '));
          if (!f.empty() && nfn < 10 && f != lastFn) {
            where = nfn++ ? where + "<" + f : f;
            lastFn = f;
          }
        }
      }
    }
    deserialize(buf, o.v, o.ctx); // keeps the early description
    o.ctx.labels.clear();
    o.ctx.nontrivial = false;
    o.inconclusive = true;
    o.v = Verdict::fail("timeout:" + where, "case exceeded " + std::to_string(timeout) + " ms; interrupted in:\n" + trace);
    ++S.timeoutsWhere[where];
    if (S.timeoutSamples.size() < 5) S.timeoutSamples.push_back(o.ctx.desc);
    return o;
  }
  waitpid(pid, &status, 0);
  bool complete = deserialize(buf, o.v, o.ctx);
  if (!complete || !(WIFEXITED(status) && WEXITSTATUS(status) == 0)) {
    o.ctx.labels.clear();
    o.ctx.nontrivial = false;
    std::string err = slurp(S.stderrPath);
    std::string key = classifyDeath(err, status);
    std::string tail = err.size() > 3000 ? err.substr(err.size() - 3000) : err;
    // keep the head too: sanitizer reports start with the interesting part
    std::string head = err.size() > 3000 ? err.substr(0, 1500) + "\n...\n" : "";
    o.v = Verdict::fail(key, "child died (status " + std::to_string(status) +
                                 ")\n" + head + tail);
  }
  return o;
}

Outcome runCase(const std::vector<uint32_t> &ch) {
  if (!S.forked) return runInProcess(ch);
  Outcome o = runForked(ch);
  if (o.inconclusive && S.prop->hangViolates) {
    // "never loops forever": a listed class is reported as such; anything else gets ten times the limit,
    // and only a case that is still running then is called a violation (slow is not hanging)
    if (matchKnown(o.v.key)) {
      o.inconclusive = false;
      return o;
    }
    Outcome o2 = runForked(ch, 10);
    if (o2.inconclusive) {
      o2.inconclusive = false;
      o2.v.detail = "still running at ten times the per-case limit\n" + o2.v.detail;
      return o2;
    }
  }
  return o;
}

void account(const std::vector<uint32_t> &ch, const Outcome &o) {
  ++S.evaluations;
  for (auto &l : o.ctx.labels) ++S.classes[l];
  if (o.inconclusive) ++S.inconclusive;
  if (o.ctx.nontrivial) {
    ++S.nontrivial;
    uint64_t h = o.ctx.desc.empty()
                     ? fnv(ch.data(), ch.size() * sizeof(uint32_t))
                     : fnv(o.ctx.desc.data(), o.ctx.desc.size());
    if (S.ntHashes.size() < 100000) S.ntHashes.insert(h);
    else ++S.nontrivialCapped;
    if (!o.ctx.desc.empty()) {
      if (S.firstSample.empty()) S.firstSample = o.ctx.desc;
      S.lastSample = o.ctx.desc;
      ++S.sampleSeen;
      S.lcg = S.lcg * 6364136223846793005ULL + 1442695040888963407ULL;
      if (S.samples.size() < 3) S.samples.push_back(o.ctx.desc);
      else {
        uint64_t r = (S.lcg >> 33) % S.sampleSeen;
        if (r < 3) S.samples[r] = o.ctx.desc;
      }
    }
  }
}

void writeStats(int violations) {
  if (S.statsPath.empty()) return;
  std::ofstream f(S.statsPath);
  f << "{\n";
  f << "\"property\": " << jsonStr(S.prop->id) << ",\n";
  f << "\"seed\": " << S.seed << ",\n";
  f << "\"evaluations\": " << S.evaluations << ",\n";
  f << "\"nontrivial\": " << S.nontrivial << ",\n";
  f << "\"nontrivial_uncounted_after_cap\": " << S.nontrivialCapped << ",\n";
  f << "\"inconclusive\": " << S.inconclusive << ",\n";
  f << "\"skipped_budget\": " << S.skippedBudget << ",\n";
  f << "\"shrink_evaluations\": " << S.shrinkEvaluations << ",\n";
  f << "\"violations\": " << violations << ",\n";
  f << "\"wall_s\": " << elapsed() << ",\n";
  auto dumpMap = [&](const char *name, const std::map<std::string, uint64_t> &m) {
    f << "\"" << name << "\": {";
    bool first = true;
    for (auto &kv : m) {
      if (!first) f << ", ";
      first = false;
      f << jsonStr(kv.first) << ": " << kv.second;
    }
    f << "},\n";
  };
  dumpMap("classes", S.classes);
  dumpMap("excluded_known", S.excludedKnown);
  dumpMap("other_failures", S.otherFailures);
  dumpMap("timeouts_where", S.timeoutsWhere);
  f << "\"samples\": [";
  std::vector<std::string> ss;
  if (!S.firstSample.empty()) ss.push_back(S.firstSample);
  for (auto &s : S.samples) ss.push_back(s);
  if (!S.lastSample.empty()) ss.push_back(S.lastSample);
  for (size_t i = 0; i < ss.size(); ++i) f << (i ? ", " : "") << jsonStr(ss[i]);
  f << "],\n";
  f << "\"timeout_samples\": [";
  for (size_t i = 0; i < S.timeoutSamples.size(); ++i) f << (i ? ", " : "") << jsonStr(S.timeoutSamples[i]);
  f << "],\n";
  f << "\"nt_hashes\": [";
  bool first = true;
  for (auto h : S.ntHashes) {
    if (!first) f << ",";
    first = false;
    f << "\"" << std::hex << h << std::dec << "\"";
  }
  f << "]\n}\n";
}

void writeFail(const std::string &path, const std::vector<uint32_t> &ch,
               const std::string &key, const std::string &detail,
               const std::string &desc) {
  std::ofstream f(path);
  f << "# property=" << S.prop->id << " key=" << key << "\n";
  std::istringstream ds(desc);
  std::string line;
  while (std::getline(ds, line)) f << "# case: " << line << "\n";
  std::istringstream dd(detail);
  int n = 0;
  while (std::getline(dd, line) && n++ < 60) f << "# detail: " << line << "\n";
  f << "choices:";
  size_t len = ch.size();
  while (len > 0 && ch[len - 1] == 0) --len;
  for (size_t i = 0; i < len; ++i) f << " " << ch[i];
  f << "\n";
}

bool readCase(const std::string &path, std::vector<uint32_t> &ch) {
  std::ifstream f(path);
  if (!f) return false;
  std::string line;
  while (std::getline(f, line)) {
    if (line.compare(0, 8, "choices:") == 0) {
      std::istringstream is(line.substr(8));
      uint64_t x;
      while (is >> x) ch.push_back((uint32_t)x);
      return true;
    }
  }
  return false;
}


uint64_t splitmix(uint64_t &x) {
  uint64_t z = (x += 0x9e3779b97f4a7c15ULL);
  z = (z ^ (z >> 30)) * 0xbf58476d1ce4e5b9ULL;
  z = (z ^ (z >> 27)) * 0x94d049bb133111ebULL;
  return z ^ (z >> 31);
}

std::vector<uint32_t> materialise(const std::vector<uint32_t> &expl, uint32_t tailSeed, size_t len) {
  std::vector<uint32_t> v(expl);
  if (v.size() > len) v.resize(len);
  if (tailSeed % 8 != 0) { // 1 case in 8 keeps an all-zero (simplest) tail
    uint64_t st = tailSeed;
    while (v.size() < len) v.push_back((uint32_t)(splitmix(st) >> 16));
  }
  return v;
}

// Delta-debugging style minimisation of a failing sequence; a candidate is
// accepted only if it fails with the *same* finding key.
void shrinkFailure() {
  if (S.failKey.rfind("timeout:", 0) == 0) return; // every evaluation would cost the full limit
  auto t0 = std::chrono::steady_clock::now();
  size_t evals = 0;
  auto budgetLeft = [&]() {
    return evals < S.shrinkEvals &&
           std::chrono::duration<double>(std::chrono::steady_clock::now() - t0).count() < S.shrinkSeconds;
  };
  std::vector<uint32_t> cur = S.failChoices;
  auto trim = [](std::vector<uint32_t> &v) {
    while (!v.empty() && v.back() == 0) v.pop_back();
  };
  trim(cur);
  auto stillFails = [&](const std::vector<uint32_t> &cand) {
    ++evals;
    ++S.shrinkEvaluations;
    Outcome o = runCase(cand);
    if (o.v.ok || o.inconclusive) return false;
    if (o.v.key != S.failKey) {
      if (!matchKnown(o.v.key)) ++S.otherFailures[o.v.key];
      return false;
    }
    S.failDetail = o.v.detail;
    S.failDesc = o.ctx.desc;
    return true;
  };
  bool progress = true;
  while (progress && budgetLeft()) {
    progress = false;
    // 1. truncate (tail becomes zeros)
    for (size_t cut = cur.size() / 2; cut >= 1 && budgetLeft(); cut /= 2) {
      while (cur.size() >= cut && budgetLeft()) {
        std::vector<uint32_t> cand(cur.begin(), cur.end() - cut);
        trim(cand);
        if (cand.size() < cur.size() && stillFails(cand)) {
          cur = cand;
          progress = true;
        } else
          break;
      }
    }
    // 2. delete interior chunks
    for (size_t chunk = std::max<size_t>(cur.size() / 4, 1); chunk >= 1 && budgetLeft(); chunk /= 2) {
      for (size_t at = 0; at + chunk <= cur.size() && budgetLeft();) {
        std::vector<uint32_t> cand(cur.begin(), cur.begin() + at);
        cand.insert(cand.end(), cur.begin() + at + chunk, cur.end());
        trim(cand);
        if (stillFails(cand)) {
          cur = cand;
          progress = true;
        } else
          at += chunk;
      }
      if (chunk == 1) break;
    }
    // 3. lower individual elements
    for (size_t i = 0; i < cur.size() && budgetLeft(); ++i) {
      if (cur[i] == 0) continue;
      std::vector<uint32_t> cand = cur;
      cand[i] = 0;
      trim(cand);
      if (stillFails(cand)) {
        cur = cand;
        progress = true;
        continue;
      }
      // halve while it still fails
      uint32_t lo = 0, hi = cur[i];
      int steps = 0;
      while (hi - lo > 1 && steps++ < 8 && budgetLeft()) {
        uint32_t mid = lo + (hi - lo) / 2;
        cand = cur;
        cand[i] = mid;
        if (stillFails(cand)) {
          hi = mid;
          cur = cand;
          progress = true;
        } else
          lo = mid;
      }
    }
  }
  S.failChoices = cur;
}

const char *argval(int argc, char **argv, const char *name) {
  for (int i = 1; i + 1 < argc; ++i)
    if (!strcmp(argv[i], name)) return argv[i + 1];
  return nullptr;
}
bool argflag(int argc, char **argv, const char *name) {
  for (int i = 1; i < argc; ++i)
    if (!strcmp(argv[i], name)) return true;
  return false;
}

} // namespace

int main(int argc, char **argv) {
  S.t0 = std::chrono::steady_clock::now();
  const char *pid = argval(argc, argv, "--prop");
  if (!pid) {
    fprintf(stderr, "usage: %s --prop ID [--replay FILE | --seed N --cases N "
                    "--maxlen N --stats F --fail F --known F --budget S] [--forked]\n",
            argv[0]);
    return 2;
  }
  for (const PropDef *p = kProps; p->id; ++p)
    if (!strcmp(p->id, pid)) S.prop = p;
  if (!S.prop) {
    fprintf(stderr, "unknown property %s\n", pid);
    return 2;
  }
  S.forked = S.prop->forked || argflag(argc, argv, "--forked");
  if (argflag(argc, argv, "--inprocess")) S.forked = false;
  if (auto a = argval(argc, argv, "--seed")) S.seed = strtoull(a, nullptr, 10);
  if (auto a = argval(argc, argv, "--cases")) S.cases = strtoull(a, nullptr, 10);
  if (auto a = argval(argc, argv, "--maxlen")) S.maxlen = strtoull(a, nullptr, 10);
  if (auto a = argval(argc, argv, "--stats")) S.statsPath = a;
  if (auto a = argval(argc, argv, "--fail")) S.failPath = a;
  if (auto a = argval(argc, argv, "--known")) S.knownPath = a;
  if (auto a = argval(argc, argv, "--budget")) S.budget = atof(a);
  if (auto a = argval(argc, argv, "--explicit")) S.explicitLen = strtoull(a, nullptr, 10);
  if (auto a = argval(argc, argv, "--shrink-evals")) S.shrinkEvals = strtoull(a, nullptr, 10);
  if (auto a = argval(argc, argv, "--shrink-seconds")) S.shrinkSeconds = atof(a);
  {
    const char *tmp = getenv("VERIF_TMP");
    std::string dir = tmp ? tmp : "/tmp";
    S.stderrPath = dir + "/pbt_stderr." + std::to_string(getpid());
  }
  loadKnown();
  if (S.prop->init) S.prop->init();

  if (argflag(argc, argv, "--count")) {
    printf("COUNT %ld\n", S.prop->count ? S.prop->count() : 0L);
    return 0;
  }
  if (auto rp = argval(argc, argv, "--replay")) {
    std::vector<uint32_t> ch;
    if (!readCase(rp, ch)) {
      fprintf(stderr, "cannot read case %s\n", rp);
      return 2;
    }
    Outcome o = runCase(ch);
    unlink(S.stderrPath.c_str());
    printf("REPLAY-CASE: %s\n", esc(o.ctx.desc).c_str());
    if (o.v.ok) {
      printf("REPLAY-RESULT: ok\n");
      return 0;
    }
    printf("REPLAY-RESULT: fail key=%s\n", o.v.key.c_str());
    printf("REPLAY-DETAIL: %s\n", o.v.detail.c_str());
    if (o.inconclusive) return 12;
    if (matchKnown(o.v.key)) return 11;
    return 10;
  }

  // --- deterministic enumeration of an index range (fault enumeration) ---
  if (auto en = argval(argc, argv, "--enumerate")) {
    uint64_t a = strtoull(en, nullptr, 10), b = a;
    for (int i = 1; i + 2 < argc; ++i)
      if (!strcmp(argv[i], "--enumerate")) b = strtoull(argv[i + 2], nullptr, 10);
    uint64_t stride = 1;
    if (auto st = argval(argc, argv, "--stride")) stride = strtoull(st, nullptr, 10);
    for (uint64_t i = a; i < b; i += stride) {
      std::vector<uint32_t> ch{(uint32_t)i};
      Outcome o = runCase(ch);
      account(ch, o);
      if (o.v.ok || o.inconclusive) continue;
      if (matchKnown(o.v.key)) {
        ++S.excludedKnown[o.v.key];
        continue;
      }
      S.haveFail = true;
      S.failKey = o.v.key;
      S.failDetail = o.v.detail;
      S.failDesc = o.ctx.desc;
      S.failChoices = ch;
      break;
    }
    unlink(S.stderrPath.c_str());
    if (S.haveFail && !S.failPath.empty()) {
      // keep the index even when it is 0
      std::ofstream f(S.failPath);
      f << "# property=" << S.prop->id << " key=" << S.failKey << "\n";
      f << "# case: " << esc(S.failDesc) << "\n";
      std::istringstream dd(S.failDetail);
      std::string line;
      int n = 0;
      while (std::getline(dd, line) && n++ < 60) f << "# detail: " << line << "\n";
      f << "choices: " << S.failChoices[0] << "\n";
    }
    writeStats(S.haveFail ? 1 : 0);
    return S.haveFail ? 10 : 0;
  }

  // --- rapidcheck run ---
  // A generated case is (explicit prefix, tail seed); it is materialised into
  // a plain sequence of S.maxlen choices before it is run, so the replay file
  // and the shrinker only ever see plain sequences.
  {
    std::ostringstream rp;
    rp << "seed=" << (S.seed ? S.seed : 1) << " max_success=" << S.cases
       << " max_size=" << S.explicitLen << " max_discard_ratio=100 noshrink=1";
    setenv("RC_PARAMS", rp.str().c_str(), 1);
  }
  auto elem = rc::gen::resize(
      100, rc::gen::inRange<uint32_t>(0, std::numeric_limits<uint32_t>::max()));
  auto gen = rc::gen::pair(rc::gen::container<std::vector<uint32_t>>(elem), elem);

  bool ok = rc::check(std::string("property ") + S.prop->id, [&]() {
    if (elapsed() > S.budget) {
      ++S.skippedBudget;
      return; // inconclusive remainder: time budget exhausted
    }
    auto g = *gen;
    std::vector<uint32_t> ch = materialise(g.first, g.second, S.maxlen);
    Outcome o = runCase(ch);
    account(ch, o);
    if (o.v.ok) return;
    if (o.inconclusive) return; // counted, never a violation here
    if (matchKnown(o.v.key)) {
      ++S.excludedKnown[o.v.key];
      return;
    }
    S.haveFail = true;
    S.failKey = o.v.key;
    S.failDetail = o.v.detail;
    S.failDesc = o.ctx.desc;
    S.failChoices = ch;
    RC_FAIL(o.v.key);
  });
  if (S.haveFail) shrinkFailure();
  unlink(S.stderrPath.c_str());
  int violations = (!ok && S.haveFail) ? 1 : 0;
  if (violations && !S.failPath.empty())
    writeFail(S.failPath, S.failChoices, S.failKey, S.failDetail, S.failDesc);
  writeStats(violations);
  if (!ok && !S.haveFail) {
    fprintf(stderr, "rapidcheck reported failure without a recorded case\n");
    return 2;
  }
  return violations ? 10 : 0;
}
