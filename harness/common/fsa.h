// Harness-side automaton library: an epsilon-NFA with integer (max,+) weights,
// read from an fsg_model_t through the public arc iterator or built by the
// harness itself; bounded-length language enumeration with best weight.
#pragma once
extern "C" {
#include <soundswallower/fsg_model.h>
}
#include <functional>
#include <map>
#include <set>
#include <string>
#include <vector>

namespace fsa {

struct Arc {
  int from, to;
  std::string label; // "" = epsilon
  long logp;
};

struct Fsa {
  int nstate = 0, start = 0, fin = 0;
  std::vector<Arc> arcs;
};

inline std::string stripQuotes(const std::string &w) {
  if (w.size() >= 2 && w.front() == '"' && w.back() == '"') return w.substr(1, w.size() - 2);
  return w;
}

// Copy an fsg_model_t out through fsg_model_arcs (public iterator).
// mapLabel: returns the label to use ("" erases the word into an epsilon).
inline Fsa readFsg(fsg_model_t *fsg, const std::function<std::string(fsg_model_t *, int)> &mapLabel = nullptr) {
  Fsa a;
  a.nstate = fsg_model_n_state(fsg);
  a.start = fsg_model_start_state(fsg);
  a.fin = fsg_model_final_state(fsg);
  for (int s = 0; s < a.nstate; ++s) {
    for (fsg_arciter_t *it = fsg_model_arcs(fsg, s); it; it = fsg_arciter_next(it)) {
      fsg_link_t *l = fsg_arciter_get(it);
      Arc arc;
      arc.from = fsg_link_from_state(l);
      arc.to = fsg_link_to_state(l);
      arc.logp = fsg_link_logs2prob(l);
      int wid = fsg_link_wid(l);
      if (wid < 0) arc.label = "";
      else arc.label = mapLabel ? mapLabel(fsg, wid) : std::string(fsg_model_word_str(fsg, wid));
      a.arcs.push_back(arc);
    }
  }
  return a;
}

const long NEG = -(1L << 60);

struct Enumerator {
  const Fsa &a;
  int k;
  size_t cap;
  std::vector<std::vector<const Arc *>> out;
  std::vector<std::string> alphabet;
  std::map<std::string, long> lang; // sentence -> best weight
  bool capped = false;

  Enumerator(const Fsa &a_, int k_, size_t cap_ = 200000) : a(a_), k(k_), cap(cap_) {
    out.resize(a.nstate);
    std::set<std::string> al;
    for (auto &arc : a.arcs) {
      if (arc.from < 0 || arc.from >= a.nstate || arc.to < 0 || arc.to >= a.nstate) continue;
      out[arc.from].push_back(&arc);
      if (!arc.label.empty()) al.insert(arc.label);
    }
    alphabet.assign(al.begin(), al.end());
  }

  typedef std::map<int, long> Front;

  void closure(Front &f) const {
    // relax epsilon arcs to a fixpoint (weights <= 0 on null arcs: no positive cycles;
    // guard against malformed positive cycles with an iteration cap)
    bool changed = true;
    int guard = 0;
    while (changed && guard++ < a.nstate + 2) {
      changed = false;
      Front add;
      for (auto &kv : f)
        for (auto arc : out[kv.first])
          if (arc->label.empty()) {
            long w = kv.second + arc->logp;
            auto it = f.find(arc->to);
            if (it == f.end() || it->second < w) {
              auto ia = add.find(arc->to);
              if (ia == add.end() || ia->second < w) add[arc->to] = w;
            }
          }
      for (auto &kv : add) {
        auto it = f.find(kv.first);
        if (it == f.end() || it->second < kv.second) {
          f[kv.first] = kv.second;
          changed = true;
        }
      }
    }
  }

  void rec(const Front &f, std::vector<const std::string *> &prefix) {
    if (lang.size() >= cap) {
      capped = true;
      return;
    }
    auto fi = f.find(a.fin);
    if (fi != f.end()) {
      std::string s;
      for (size_t i = 0; i < prefix.size(); ++i) s += (i ? " " : "") + *prefix[i];
      auto it = lang.find(s);
      if (it == lang.end() || it->second < fi->second) lang[s] = fi->second;
    }
    if ((int)prefix.size() >= k) return;
    for (auto &w : alphabet) {
      Front nx;
      for (auto &kv : f)
        for (auto arc : out[kv.first])
          if (arc->label == w) {
            long x = kv.second + arc->logp;
            auto it = nx.find(arc->to);
            if (it == nx.end() || it->second < x) nx[arc->to] = x;
          }
      if (nx.empty()) continue;
      closure(nx);
      prefix.push_back(&w);
      rec(nx, prefix);
      prefix.pop_back();
    }
  }

  void run() {
    Front f;
    if (a.start >= 0 && a.start < a.nstate) f[a.start] = 0;
    closure(f);
    std::vector<const std::string *> prefix;
    rec(f, prefix);
  }
};

// sentence -> best weight, sentences up to k words
inline std::map<std::string, long> language(const Fsa &a, int k, bool *capped = nullptr) {
  Enumerator e(a, k);
  e.run();
  if (capped) *capped = e.capped;
  return e.lang;
}

// Does the automaton accept this exact label sequence (start -> fin)?
inline bool accepts(const Fsa &a, const std::vector<std::string> &words, bool toAnyState = false) {
  Enumerator e(a, 0);
  Enumerator::Front f;
  f[a.start] = 0;
  e.closure(f);
  for (auto &w : words) {
    Enumerator::Front nx;
    for (auto &kv : f)
      for (auto arc : e.out[kv.first])
        if (arc->label == w) nx[arc->to] = 0;
    if (nx.empty()) return false;
    e.closure(nx);
    f.swap(nx);
  }
  return toAnyState || f.count(a.fin) > 0;
}

} // namespace fsa
