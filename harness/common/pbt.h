// Common property-based-testing scaffolding shared by every harness.
//
// A *case* is a finite sequence of 32-bit choices.  rapidcheck generates and
// shrinks that sequence (pbt_main.cpp); libFuzzer can feed the same decoder
// with bytes; a replay file is the sequence written as text.  The harness
// decodes choices into structured input through `Choices`, so every random
// decision stays inside the library's generator and shrinking works on the
// whole case: smaller numbers and shorter sequences decode to simpler inputs
// (an exhausted sequence yields 0 = the first/simplest alternative).
#pragma once
#include <cstdint>
#include <cstdio>
#include <cstring>
#include <functional>
#include <initializer_list>
#include <map>
#include <set>
#include <sstream>
#include <string>
#include <vector>
#include <unistd.h>

namespace pbt {

struct Choices {
  const uint32_t *v;
  size_t n;
  size_t i = 0;
  Choices(const uint32_t *v_, size_t n_) : v(v_), n(n_) {}
  explicit Choices(const std::vector<uint32_t> &vec)
      : v(vec.data()), n(vec.size()) {}
  uint32_t raw() {
    uint32_t r = i < n ? v[i] : 0;
    ++i;
    return r;
  }
  // inclusive range; 0 -> lo
  int64_t range(int64_t lo, int64_t hi) {
    if (hi <= lo) {
      raw();
      return lo;
    }
    uint64_t span = (uint64_t)(hi - lo) + 1;
    return lo + (int64_t)(raw() % span);
  }
  // true with probability pct/100; choice value 0 -> false
  bool coin(int pct) {
    uint32_t r = raw() % 100;
    return r >= (uint32_t)(100 - pct);
  }
  // index drawn with the given weights; choice 0 -> index 0
  size_t weighted(std::initializer_list<int> w) {
    int tot = 0;
    for (int x : w) tot += x;
    int r = (int)(raw() % (uint32_t)tot);
    size_t k = 0;
    for (int x : w) {
      if (r < x) return k;
      r -= x;
      ++k;
    }
    return k - 1;
  }
  template <class T> const T &pick(const std::vector<T> &xs) {
    return xs[(size_t)range(0, (int64_t)xs.size() - 1)];
  }
  bool exhausted() const { return i > n; }
  size_t consumed() const { return i < n ? i : n; }
};

// Per-case reporting: labels (class distribution), non-triviality, a canonical
// human-readable description (used for samples and for distinct counting).
struct Ctx {
  std::set<std::string> labels;
  bool nontrivial = false;
  std::string desc;
  int earlyFd = -1; // forked mode: the description is sent to the parent at once,
                    // so it survives a crash of the child
  void describe(const std::string &s) {
    desc = s;
    if (earlyFd >= 0) {
      std::string o = "S ";
      for (unsigned char ch : s) {
        if (ch == '\\') o += "\\\\";
        else if (ch == '\n') o += "\\n";
        else if (ch == '\r') o += "\\r";
        else o += (char)ch;
      }
      o += "\n";
      size_t off = 0;
      while (off < o.size()) {
        ssize_t w = ::write(earlyFd, o.data() + off, o.size() - off);
        if (w <= 0) break;
        off += (size_t)w;
      }
    }
  }
  void label(const std::string &s) { labels.insert(s); }
  void labelIf(bool c, const std::string &s) {
    if (c) labels.insert(s);
  }
};

struct Verdict {
  bool ok = true;
  std::string key;    // finding key (stable class of failure)
  std::string detail; // human readable
  static Verdict pass() { return Verdict(); }
  static Verdict fail(const std::string &key, const std::string &detail) {
    Verdict v;
    v.ok = false;
    v.key = key;
    v.detail = detail;
    return v;
  }
};

using PropFn = Verdict (*)(Choices &, Ctx &);

struct PropDef {
  const char *id;      // property id, e.g. "C20"
  PropFn fn;           // the executable property
  bool forked;         // run every case in a forked child
  int timeout_ms;      // per-case limit in forked mode
  void (*init)();      // once per process, before the first case (may be null)
  long (*count)() = nullptr; // fault enumeration: how many indices this tier enumerates
  bool hangViolates = false; // a case that still runs at 10x the per-case limit is a violation (the property says "never loops forever")
};

// Each harness defines this table (terminated by id == nullptr).
extern const PropDef kProps[];

// true iff `key` is listed as a known finding for the running property
// (lets a harness probe a listed class rarely instead of on every case).
bool isKnown(const std::string &key);

// helper for building failure details
struct Msg {
  std::ostringstream os;
  template <class T> Msg &operator<<(const T &x) {
    os << x;
    return *this;
  }
  operator std::string() const { return os.str(); }
  std::string str() const { return os.str(); }
};

#define PBT_CHECK(cond, key, detail)                                          \
  do {                                                                        \
    if (!(cond))                                                              \
      return ::pbt::Verdict::fail((key), ::pbt::Msg() << detail << " [" #cond \
                                                      "]");                   \
  } while (0)

} // namespace pbt
