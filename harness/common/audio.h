// Audio recipes: pure functions of generated integers (no RNG of our own
// beyond an LCG seeded from a choice, no clock), so shrinking and replay
// reproduce every signal.
#pragma once
#include "pbt.h"

#include <algorithm>
#include <cmath>
#include <cstdlib>
#include <cstdint>
#include <cstdio>
#include <string>
#include <vector>

#ifndef REPO_DIR
#define REPO_DIR "/repo"
#endif

namespace audio {

inline std::string repoDir() {
  const char *e = getenv("VERIF_REPO");
  return e ? e : REPO_DIR;
}

inline std::vector<int16_t> loadRaw(const std::string &path) {
  std::vector<int16_t> v;
  FILE *f = fopen(path.c_str(), "rb");
  if (!f) return v;
  fseek(f, 0, SEEK_END);
  long n = ftell(f);
  fseek(f, 0, SEEK_SET);
  v.resize((size_t)n / 2);
  if (fread(v.data(), 2, v.size(), f) != v.size()) v.clear();
  fclose(f);
  return v;
}

// bundled 16 kHz recordings (loaded once per process)
inline const std::vector<int16_t> &goforward() {
  static std::vector<int16_t> v = loadRaw(repoDir() + "/tests/data/goforward.raw");
  return v;
}
inline const std::vector<int16_t> &goforwardFr() {
  static std::vector<int16_t> v = loadRaw(repoDir() + "/tests/data/goforward_fr.raw");
  return v;
}

struct Lcg {
  uint64_t s;
  explicit Lcg(uint64_t seed) : s(seed * 2862933555777941757ULL + 3037000493ULL) {}
  uint32_t next() {
    s = s * 6364136223846793005ULL + 1442695040888963407ULL;
    return (uint32_t)(s >> 33);
  }
};

inline int16_t sat(long x) { return (int16_t)(x > 32767 ? 32767 : x < -32768 ? -32768 : x); }

// Generates n samples of the chosen family; `desc` receives a description.
inline std::vector<int16_t> recipe(pbt::Choices &c, size_t n, std::string &desc, bool allowSpeech = true, int speechWeight = 6) {
  std::vector<int16_t> v(n);
  size_t fam = c.weighted({allowSpeech ? speechWeight : 0, 4, 1, 1, 1, 1, 1, 1, 1});
  switch (fam) {
  case 0: { // speech excerpt (optionally reversed / clipped)
    const auto &src = c.coin(25) ? goforwardFr() : goforward();
    size_t off = src.size() > n ? (size_t)c.range(0, (int64_t)(src.size() - n)) : 0;
    bool rev = c.coin(15);
    int gain = c.coin(20) ? (int)c.range(2, 40) : 1;
    for (size_t i = 0; i < n; ++i) {
      long s = src.empty() ? 0 : src[(off + i) % src.size()];
      v[i] = sat(s * gain);
    }
    if (rev) std::reverse(v.begin(), v.end());
    desc = "speech(off=" + std::to_string(off) + (rev ? ",reversed" : "") + (gain > 1 ? ",gain=" + std::to_string(gain) : "") + ")";
    break;
  }
  case 1: { // white noise at a level
    static const int levels[] = {1000, 1, 30, 8000, 32767};
    int lev = levels[c.range(0, 4)];
    Lcg g((uint64_t)c.range(0, 1 << 20));
    for (size_t i = 0; i < n; ++i) v[i] = (int16_t)((long)(g.next() % (2 * (uint32_t)lev + 1)) - lev);
    desc = "noise(level=" + std::to_string(lev) + ")";
    break;
  }
  case 2:
    desc = "silence";
    break;
  case 3: { // DC
    static const int dc[] = {32767, -32768, 1, -1, 1000};
    int d = dc[c.range(0, 4)];
    for (auto &x : v) x = (int16_t)d;
    desc = "dc(" + std::to_string(d) + ")";
    break;
  }
  case 4: { // full-scale square
    int period = (int)c.range(1, 200) * 2;
    for (size_t i = 0; i < n; ++i) v[i] = ((i % period) < (size_t)period / 2) ? 32767 : -32768;
    desc = "square(period=" + std::to_string(period) + ")";
    break;
  }
  case 5: { // impulse train
    int period = (int)c.range(1, 3000);
    int amp = c.coin(50) ? 32767 : -32768;
    for (size_t i = 0; i < n; i += period) v[i] = (int16_t)amp;
    desc = "impulses(period=" + std::to_string(period) + ")";
    break;
  }
  case 6: { // sine
    double f = (double)c.range(20, 7900), a = (double)c.range(1, 32767);
    for (size_t i = 0; i < n; ++i) v[i] = (int16_t)std::lrint(a * std::sin(2 * M_PI * f * (double)i / 16000.0));
    desc = "sine(f=" + std::to_string((int)f) + ",a=" + std::to_string((int)a) + ")";
    break;
  }
  case 7: { // alternating silence / noise blocks
    int block = (int)c.range(100, 5000);
    Lcg g((uint64_t)c.range(0, 1 << 20));
    for (size_t i = 0; i < n; ++i) v[i] = ((i / block) & 1) ? (int16_t)((long)(g.next() % 20001) - 10000) : 0;
    desc = "silence/noise(block=" + std::to_string(block) + ")";
    break;
  }
  default: { // single impulse
    if (n) v[(size_t)c.range(0, (int64_t)n - 1)] = 32767;
    desc = "impulse";
    break;
  }
  }
  return v;
}

} // namespace audio
