// Shared pieces for every harness that drives a real decoder: decoder
// factory, grammar generators through the three front doors (JSGF text, FSG
// text, alignment text) together with the harness' OWN acceptor of the
// grammar, chunk plans, and a canonical observation record.
#pragma once
#include "audio.h"
#include "fsa.h"
#include "jsgfgen.h"
#include "pbt.h"

extern "C" {
#include <soundswallower/acmod.h>
#include <soundswallower/configuration.h>
#include <soundswallower/decoder.h>
#include <soundswallower/dict.h>
#include <soundswallower/err.h>
#include <soundswallower/fsg_model.h>
#include <soundswallower/fsg_search.h>
#include <soundswallower/s3file.h>
#include <soundswallower/search_module.h>
}

#include <sstream>
#include <string>
#include <vector>

#ifndef VERIF_DIR
#define VERIF_DIR "/verif"
#endif

namespace dec {
using pbt::Choices;

inline std::string tmpDir() {
  const char *t = getenv("VERIF_TMP");
  return t && *t ? std::string(t) : std::string("/verif/build/tmp");
}
// model layouts derived from the bundled en-us model by tools/gen_models.py (the driver passes the directory)
inline std::string derivedModelsDir() {
  const char *e = getenv("VERIF_MODELS");
  return e ? e : std::string(VERIF_DIR) + "/build/models";
}
inline std::string verifDir() {
  const char *e = getenv("VERIF_DIR");
  return e ? e : VERIF_DIR;
}

struct DecCfg {
  std::string hmm = "en-us";
  std::string dict; // default: data/mini.dic
  bool compallsen = false;
  int frate = 100;
  int samprate = 16000;
  std::string cmn = "live";
  bool bestpath = false;
};

inline decoder_t *makeDecoder(const DecCfg &k) {
  config_t *cfg = config_init(NULL);
  config_set_str(cfg, "hmm", (audio::repoDir() + "/model/" + k.hmm).c_str());
  config_set_str(cfg, "dict", k.dict.empty() ? (verifDir() + "/data/mini.dic").c_str() : k.dict.c_str());
  config_set_str(cfg, "loglevel", "FATAL");
  config_set_bool(cfg, "compallsen", k.compallsen);
  config_set_int(cfg, "samprate", k.samprate);
  if (k.frate != 100) config_set_int(cfg, "frate", k.frate);
  config_set_str(cfg, "cmn", k.cmn.c_str());
  config_set_bool(cfg, "bestpath", k.bestpath);
  return decoder_init(cfg);
}

// vocabulary of base words available to grammars (mini.dic)
inline const std::vector<std::string> &vocab() {
  static std::vector<std::string> v = {
      "go", "forward", "ten", "meters", "a", "i", "oh", "e", "for", "four", "fort", "tent", "tense", "meter",
      "the", "to", "too", "two", "eight", "ate", "stop", "left", "right", "up", "down", "no", "yes", "one", "won",
      "or", "are", "an", "and", "in", "on", "at", "it", "is", "see", "sea", "so", "show", "she", "he", "we", "you",
      "me", "my", "may", "day", "say", "backward", "goes", "going"};
  return v;
}

// ------------------------------------------------------------------ grammars
struct Gram {
  enum Kind { JSGF, FSG, ALIGN } kind = JSGF;
  std::string text;                    // what is handed to the library
  fsa::Fsa own;                        // the harness' own acceptor of the grammar
  std::vector<std::string> alignWords; // ALIGN only (base forms)
  bool confluence = false;             // two rhyming words from different states into one state
  bool namesVariant = false;           // some word is written as a numbered pronunciation variant, e.g. the(2)
  std::string desc;
};

inline std::string baseForm(const std::string &w) {
  size_t p = w.find('(');
  if (p == std::string::npos || p == 0 || w.back() != ')') return w;
  return w.substr(0, p);
}

// a numbered pronunciation variant of mini.dic that a grammar may name explicitly ("" if the word has none)
inline std::string explicitVariant(const std::string &w, uint32_t sel) {
  static const std::map<std::string, int> nalt = {{"a", 2}, {"an", 2}, {"and", 2}, {"are", 2}, {"for", 3}, {"going", 2}, {"on", 2}, {"or", 2}, {"the", 2}, {"to", 3}, {"won", 2}};
  auto it = nalt.find(w);
  if (it == nalt.end()) return "";
  return w + "(" + std::to_string(2 + (int)(sel % (uint32_t)(it->second - 1))) + ")";
}

inline Gram genGrammar(Choices &c, int wJsgf = 4, int wFsg = 4, int wAlign = 2, const std::vector<std::string> *extra = nullptr) {
  Gram g;
  const auto &V = vocab();
  // small per-case alphabet, biased toward the words of the bundled recording
  int nw = (int)c.range(2, 5);
  std::vector<std::string> words;
  for (int i = 0; i < nw; ++i) {
    std::string w = c.coin(55) ? V[(size_t)c.range(0, 3)] : V[(size_t)c.range(0, (int64_t)V.size() - 1)];
    bool dup = false;
    for (auto &x : words) dup = dup || x == w;
    if (!dup) words.push_back(w);
  }
  if (words.size() < 2) words = {"go", "forward"};
  if (extra) { // spellings that JSGF text cannot carry: FSG / alignment text only
    wJsgf = 0;
    for (int i = 0; i < 3; ++i) words.push_back((*extra)[(size_t)c.range(0, (int64_t)extra->size() - 1)]);
  }
  size_t kind = c.weighted({wJsgf, wFsg, wAlign});
  if (kind == 0) {
    g.kind = Gram::JSGF;
    jsgfgen::Grammar jg;
    jg.words = words;
    jsgfgen::Gen gen(c, jg);
    gen.noQuote = true;
    gen.nrules = (int)c.weighted({5, 3, 2}) + 1;
    int depth = (int)c.range(1, 2);
    for (int r = 0; r < gen.nrules; ++r) {
      jsgfgen::Rule rule;
      rule.name = "r" + std::to_string(r);
      rule.pub = r == 0;
      rule.body = gen.alt(r, depth);
      jg.rules.push_back(rule);
    }
    jsgfgen::Printer pr(c);
    g.text = pr.grammar(jg);
    // quoting changes the token the library stores; the decode harnesses are not about quoting
    jsgfgen::NfaBuilder nb(jg);
    g.own = nb.run("r0");
    g.desc = "JSGF: " + g.text;
  } else if (kind == 1) {
    g.kind = Gram::FSG;
    int ns = (int)c.range(1, 7);
    int start = (int)c.range(0, ns - 1);
    int fin = c.coin(12) ? start : (int)c.range(0, ns - 1);
    std::ostringstream t;
    t << "FSG_BEGIN gen\nNUM_STATES " << ns << "\nSTART_STATE " << start << "\nFINAL_STATE " << fin << "\n";
    g.own.nstate = ns;
    g.own.start = start;
    g.own.fin = fin;
    // one choice: the remainder is the arc count as before; the quotient may add a "confluence": two arcs with
    // different words that end in the same phones, from different states into one state (word exits of both then
    // meet in the same history cell)
    uint32_t nr = c.raw();
    int narcs = 1 + (int)(nr % 14);
    if (!extra && ns >= 3 && (nr / 14) % 4 == 3) {
      static const char *RHYME[][2] = {{"two", "too"}, {"eight", "ate"}, {"see", "sea"}, {"one", "won"}, {"four", "for"}, {"so", "show"}, {"me", "he"}, {"may", "day"}};
      uint32_t q = nr / 56;
      const char **pair = RHYME[q % 8];
      q /= 8;
      int to = (int)(q % (uint32_t)ns);
      q /= (uint32_t)ns;
      int s1 = (int)(q % (uint32_t)ns);
      q /= (uint32_t)ns;
      int s2 = (s1 + 1 + (int)(q % (uint32_t)(ns - 1))) % ns;
      for (int k2 = 0; k2 < 2; ++k2) {
        t << "TRANSITION " << (k2 ? s2 : s1) << " " << to << " 1 " << pair[k2] << "\n";
        g.own.arcs.push_back({k2 ? s2 : s1, to, pair[k2], 0});
      }
      g.confluence = true;
    }
    // a backbone from start towards final so that most grammars are non-empty
    bool backbone = c.coin(75);
    for (int i = 0; i < narcs; ++i) {
      int from, to;
      if (backbone && i < ns) {
        from = (start + i) % ns;
        to = (i == ns - 1 || c.coin(25)) ? fin : (start + i + 1) % ns;
      } else {
        from = (int)c.range(0, ns - 1);
        to = c.coin(12) ? from : (int)c.range(0, ns - 1);
      }
      bool isNull = c.coin(15) && from != to;
      double p = c.coin(60) ? 1.0 : (double)c.range(1, 1000) / 1000.0;
      if (isNull) {
        t << "TRANSITION " << from << " " << to << " " << p << "\n";
        g.own.arcs.push_back({from, to, "", 0});
      } else {
        // one choice: the remainder picks the word as before; one quotient value in three names a numbered
        // pronunciation variant explicitly when the word has one (the harness' own acceptor keeps the base form:
        // a hypothesis is made of base forms)
        uint32_t wr = c.raw();
        const std::string &w = words[(size_t)(wr % words.size())];
        std::string spelled = w;
        if (!extra && (wr / words.size()) % 3 == 2) {
          std::string v = explicitVariant(w, wr / (3 * (uint32_t)words.size()));
          if (!v.empty()) spelled = v, g.namesVariant = true;
        }
        t << (c.coin(50) ? "TRANSITION " : "T ") << from << " " << to << " " << p << " " << spelled << "\n";
        g.own.arcs.push_back({from, to, w, 0});
      }
    }
    t << "FSG_END\n";
    g.text = t.str();
    g.desc = "FSG: " + g.text;
  } else {
    g.kind = Gram::ALIGN;
    int n = (int)c.range(1, 8);
    static const char *WS[] = {" ", "  ", "\t", "\n", " \r\n "};
    std::string t = c.coin(20) ? " " : "";
    g.own.nstate = n + 1;
    g.own.start = 0;
    g.own.fin = n;
    for (int i = 0; i < n; ++i) {
      std::string w, spelledAs;
      // bias: the words of the bundled recording in order
      if (!extra && c.coin(50) && i < 4) w = vocab()[(size_t)i];
      else {
        uint32_t wr = c.raw();
        w = words[(size_t)(wr % words.size())];
        if (!extra && (wr / words.size()) % 3 == 2) spelledAs = explicitVariant(w, wr / (3 * (uint32_t)words.size()));
      }
      g.alignWords.push_back(w);
      if (i) t += WS[c.weighted({8, 1, 1, 1, 1})];
      if (!spelledAs.empty()) g.namesVariant = true;
      t += spelledAs.empty() ? w : spelledAs;
      g.own.arcs.push_back({i, i + 1, w, 0});
    }
    if (c.coin(20)) t += "\n";
    g.text = t;
    g.desc = "ALIGN: '" + t + "'";
  }
  return g;
}

// installs the grammar; returns the library's return code (0 = ok)
inline int install(decoder_t *d, const Gram &g) {
  switch (g.kind) {
  case Gram::JSGF: return decoder_set_jsgf_string(d, g.text.c_str());
  case Gram::FSG: {
    s3file_t *s3 = s3file_init(g.text.data(), g.text.size());
    float lw = (float)config_float(decoder_config(d), "lw");
    fsg_model_t *fsg = fsg_model_read_s3file(s3, decoder_logmath(d), lw);
    s3file_free(s3);
    if (!fsg) return -2;
    return decoder_set_fsg(d, fsg);
  }
  default: return decoder_set_align_text(d, g.text.c_str());
  }
}

// the grammar the search actually holds (fillers, alternates, closure), with
// null arcs given the explicit label the segmentation uses for them
inline fsa::Fsa augmented(decoder_t *d) {
  fsg_search_t *fs = (fsg_search_t *)d->search;
  return fsa::readFsg(fs->fsg, [](fsg_model_t *f, int wid) { return std::string(fsg_model_word_str(f, wid)); });
}
inline fsa::Fsa augmentedExplicitNulls(decoder_t *d) {
  fsa::Fsa a = augmented(d);
  for (auto &arc : a.arcs)
    if (arc.label.empty()) arc.label = "(NULL)";
  return a;
}

inline bool isFillerWord(decoder_t *d, const std::string &w) {
  int32 wid = dict_wordid(d->dict, w.c_str());
  // <s> and </s> are neither "filler" nor "real" for the dictionary: not real is what matters here
  return wid != BAD_S3WID && !dict_real_word(d->dict, wid);
}

// ------------------------------------------------------------ search params
struct SearchCfg {
  double beam = 1e-48, pbeam = 1e-48, wbeam = 7e-29;
  double lw = 6.5, wip = 0.65, pip = 1.0;
  bool usefiller = true, usealt = true;
  std::string str() const {
    std::ostringstream o;
    o << "beam=" << beam << " pbeam=" << pbeam << " wbeam=" << wbeam << " lw=" << lw << " wip=" << wip << " pip=" << pip
      << (usefiller ? "" : " nofiller") << (usealt ? "" : " noalt");
    return o.str();
  }
};

inline SearchCfg genSearchCfg(Choices &c) {
  SearchCfg s;
  switch (c.weighted({4, 2, 5})) {
  case 0: break; // defaults
  case 1: s.beam = 1e-10, s.pbeam = 1e-8, s.wbeam = 1e-6; break; // tight
  default: s.beam = s.pbeam = s.wbeam = 0; break;               // wide open
  }
  if (c.coin(30)) s.lw = (double[]){1.0, 9.5, 2.0}[c.range(0, 2)];
  if (c.coin(25)) s.wip = (double[]){1.0, 0.2, 1e-4}[c.range(0, 2)];
  if (c.coin(20)) s.pip = 0.5;
  s.usefiller = !c.coin(20);
  s.usealt = !c.coin(20);
  return s;
}

inline void applySearchCfg(decoder_t *d, const SearchCfg &s) {
  config_t *cfg = decoder_config(d);
  config_set_float(cfg, "beam", s.beam);
  config_set_float(cfg, "pbeam", s.pbeam);
  config_set_float(cfg, "wbeam", s.wbeam);
  config_set_float(cfg, "lw", s.lw);
  config_set_float(cfg, "wip", s.wip);
  config_set_float(cfg, "pip", s.pip);
  config_set_bool(cfg, "fsgusefiller", s.usefiller);
  config_set_bool(cfg, "fsgusealtpron", s.usealt);
}

// ---------------------------------------------------------------- chunk plan
struct Chunk {
  size_t len;
  bool noSearch = false;
  bool queryAfter = false;
};

inline std::vector<Chunk> genChunks(Choices &c, size_t N, bool allowNoSearch, int queryPct) {
  std::vector<Chunk> v;
  size_t pos = 0;
  size_t style = c.weighted({3, 3, 3, 1});
  int guard = 0;
  while (pos < N && guard++ < 400) {
    size_t len;
    if (style == 0) len = N; // one call
    else if (style == 1) len = 2048;
    else {
      switch (c.weighted({1, 2, 2, 2, 3, 3, 2})) {
      case 0: len = 1; break;
      case 1: len = (size_t)c.range(1, 159); break;
      case 2: len = (size_t)c.range(160, 409); break;
      case 3: len = (size_t)c.range(409, 411); break;
      case 4: len = (size_t)c.range(1, 20) * 160; break;
      case 5: len = (size_t)c.range(500, 6000); break;
      default: len = (size_t)c.range(6000, 30000); break;
      }
      if (style == 3 && guard > 30) len = N; // keep single-sample plans bounded
    }
    if (len > N - pos) len = N - pos;
    Chunk ch;
    ch.len = len;
    ch.noSearch = allowNoSearch && c.coin(15);
    ch.queryAfter = c.coin(queryPct);
    v.push_back(ch);
    pos += len;
  }
  if (pos < N) v.push_back({N - pos, false, false});
  return v;
}

inline std::string chunksStr(const std::vector<Chunk> &v) {
  std::ostringstream o;
  o << "[";
  size_t shown = 0;
  for (auto &ch : v) {
    if (shown++ >= 12) {
      o << "...(" << v.size() << " chunks)";
      break;
    }
    o << (shown > 1 ? "," : "") << ch.len << (ch.noSearch ? "n" : "") << (ch.queryAfter ? "?" : "");
  }
  o << "]";
  return o.str();
}

// --------------------------------------------------------------- observation
struct Seg {
  std::string word;
  int sf = 0, ef = 0;
  int32 ascr = 0, lscr = 0, prob = 0;
};

struct Obs {
  bool hasHyp = false;
  std::string hyp;
  int32 score = 0;
  bool hasSeg = false;
  std::vector<Seg> segs;
  int nFrames = 0;
  std::string str() const {
    std::ostringstream o;
    o << "hyp=" << (hasHyp ? "'" + hyp + "'" : "NULL") << " score=" << score << " n_frames=" << nFrames << " segs=";
    if (!hasSeg) o << "NULL";
    for (auto &s : segs) o << "[" << s.word << " " << s.sf << "-" << s.ef << " a" << s.ascr << " l" << s.lscr << "]";
    return o.str();
  }
};

inline Obs observe(decoder_t *d) {
  Obs o;
  int32 score = 0;
  const char *h = decoder_hyp(d, &score);
  o.hasHyp = h != NULL;
  if (h) o.hyp = h;
  o.score = h ? score : 0;
  seg_iter_t *it = decoder_seg_iter(d);
  o.hasSeg = it != NULL;
  for (; it; it = seg_iter_next(it)) {
    Seg s;
    s.word = seg_iter_word(it);
    seg_iter_frames(it, &s.sf, &s.ef);
    s.prob = seg_iter_prob(it, &s.ascr, &s.lscr);
    o.segs.push_back(s);
  }
  o.nFrames = decoder_n_frames(d);
  return o;
}

// real words of a segmentation: nulls and fillers dropped, alternates -> base
inline std::vector<std::string> project(decoder_t *d, const std::vector<Seg> &segs) {
  std::vector<std::string> w;
  for (auto &s : segs) {
    if (s.word == "(NULL)") continue;
    if (isFillerWord(d, s.word)) continue;
    w.push_back(baseForm(s.word));
  }
  return w;
}

inline std::string join(const std::vector<std::string> &w) {
  std::string s;
  for (size_t i = 0; i < w.size(); ++i) s += (i ? " " : "") + w[i];
  return s;
}

// frames the front end produces for N samples (closed form validated by C06)
inline long frameFormula(long N, long size, long shift) {
  if (N <= 0) return 0;
  if (N < size) return 1;
  long F = (N - size) / shift + 1;
  return F + (N > F * shift ? 1 : 0);
}

} // namespace dec
