// Strict RFC 8259 parser (one value, no extensions) for the C14 oracle.
#pragma once
#include <string>
#include <utility>
#include <vector>

namespace json {

struct Value {
  enum T { OBJ, ARR, STR, NUM, LIT } t = LIT;
  std::string s; // string value (unescaped), number text as written, or literal
  std::vector<std::pair<std::string, Value>> obj;
  std::vector<Value> arr;
  const Value *get(const std::string &k) const {
    for (auto &kv : obj)
      if (kv.first == k) return &kv.second;
    return nullptr;
  }
};

struct Parser {
  const std::string &in;
  size_t i = 0;
  std::string err;
  explicit Parser(const std::string &s) : in(s) {}
  bool fail(const std::string &m) {
    if (err.empty()) err = m + " at byte " + std::to_string(i);
    return false;
  }
  void ws() {
    while (i < in.size() && (in[i] == ' ' || in[i] == '\t' || in[i] == '\n' || in[i] == '\r')) ++i;
  }
  static void utf8(std::string &o, unsigned cp) {
    if (cp < 0x80) o += (char)cp;
    else if (cp < 0x800) {
      o += (char)(0xC0 | (cp >> 6));
      o += (char)(0x80 | (cp & 0x3F));
    } else if (cp < 0x10000) {
      o += (char)(0xE0 | (cp >> 12));
      o += (char)(0x80 | ((cp >> 6) & 0x3F));
      o += (char)(0x80 | (cp & 0x3F));
    } else {
      o += (char)(0xF0 | (cp >> 18));
      o += (char)(0x80 | ((cp >> 12) & 0x3F));
      o += (char)(0x80 | ((cp >> 6) & 0x3F));
      o += (char)(0x80 | (cp & 0x3F));
    }
  }
  bool str(std::string &out) {
    if (i >= in.size() || in[i] != '"') return fail("expected string");
    ++i;
    for (;;) {
      if (i >= in.size()) return fail("unterminated string");
      unsigned char c = (unsigned char)in[i];
      if (c == '"') {
        ++i;
        return true;
      }
      if (c < 0x20) return fail("raw control character in string");
      if (c == '\\') {
        if (i + 1 >= in.size()) return fail("dangling backslash");
        char e = in[i + 1];
        i += 2;
        switch (e) {
        case '"': out += '"'; break;
        case '\\': out += '\\'; break;
        case '/': out += '/'; break;
        case 'b': out += '\b'; break;
        case 'f': out += '\f'; break;
        case 'n': out += '\n'; break;
        case 'r': out += '\r'; break;
        case 't': out += '\t'; break;
        case 'u': {
          if (i + 4 > in.size()) return fail("short \\u escape");
          unsigned cp = 0;
          for (int k = 0; k < 4; ++k) {
            char h = in[i + k];
            cp <<= 4;
            if (h >= '0' && h <= '9') cp |= (unsigned)(h - '0');
            else if (h >= 'a' && h <= 'f') cp |= (unsigned)(h - 'a' + 10);
            else if (h >= 'A' && h <= 'F') cp |= (unsigned)(h - 'A' + 10);
            else return fail("bad \\u escape");
          }
          i += 4;
          utf8(out, cp);
          break;
        }
        default: return fail("invalid escape");
        }
        continue;
      }
      // UTF-8 well-formedness
      int n = c < 0x80 ? 0 : (c >> 5) == 6 ? 1 : (c >> 4) == 14 ? 2 : (c >> 3) == 30 ? 3 : -1;
      if (n < 0) return fail("invalid UTF-8 lead byte");
      if (i + (size_t)n >= in.size()) return fail("truncated UTF-8");
      for (int k = 1; k <= n; ++k)
        if (((unsigned char)in[i + k] >> 6) != 2) return fail("invalid UTF-8 continuation");
      out.append(in, i, (size_t)n + 1);
      i += (size_t)n + 1;
    }
  }
  bool num(Value &v) {
    size_t b = i;
    if (i < in.size() && in[i] == '-') ++i;
    if (i >= in.size()) return fail("bad number");
    if (in[i] == '0') ++i;
    else if (in[i] >= '1' && in[i] <= '9')
      while (i < in.size() && isdigit((unsigned char)in[i])) ++i;
    else
      return fail("bad number");
    if (i < in.size() && in[i] == '.') {
      ++i;
      if (i >= in.size() || !isdigit((unsigned char)in[i])) return fail("bad fraction");
      while (i < in.size() && isdigit((unsigned char)in[i])) ++i;
    }
    if (i < in.size() && (in[i] == 'e' || in[i] == 'E')) {
      ++i;
      if (i < in.size() && (in[i] == '+' || in[i] == '-')) ++i;
      if (i >= in.size() || !isdigit((unsigned char)in[i])) return fail("bad exponent");
      while (i < in.size() && isdigit((unsigned char)in[i])) ++i;
    }
    v.t = Value::NUM;
    v.s = in.substr(b, i - b);
    return true;
  }
  bool value(Value &v, int depth = 0) {
    if (depth > 64) return fail("too deep");
    ws();
    if (i >= in.size()) return fail("unexpected end");
    char c = in[i];
    if (c == '{') {
      v.t = Value::OBJ;
      ++i;
      ws();
      if (i < in.size() && in[i] == '}') {
        ++i;
        return true;
      }
      for (;;) {
        ws();
        std::string k;
        if (!str(k)) return false;
        ws();
        if (i >= in.size() || in[i] != ':') return fail("expected ':'");
        ++i;
        Value x;
        if (!value(x, depth + 1)) return false;
        v.obj.push_back({k, x});
        ws();
        if (i < in.size() && in[i] == ',') {
          ++i;
          continue;
        }
        if (i < in.size() && in[i] == '}') {
          ++i;
          return true;
        }
        return fail("expected ',' or '}'");
      }
    }
    if (c == '[') {
      v.t = Value::ARR;
      ++i;
      ws();
      if (i < in.size() && in[i] == ']') {
        ++i;
        return true;
      }
      for (;;) {
        Value x;
        if (!value(x, depth + 1)) return false;
        v.arr.push_back(x);
        ws();
        if (i < in.size() && in[i] == ',') {
          ++i;
          continue;
        }
        if (i < in.size() && in[i] == ']') {
          ++i;
          return true;
        }
        return fail("expected ',' or ']'");
      }
    }
    if (c == '"') {
      v.t = Value::STR;
      return str(v.s);
    }
    if (c == '-' || isdigit((unsigned char)c)) return num(v);
    for (const char *lit : {"true", "false", "null"})
      if (in.compare(i, strlen(lit), lit) == 0) {
        v.t = Value::LIT;
        v.s = lit;
        i += strlen(lit);
        return true;
      }
    return fail("unexpected character");
  }
};

} // namespace json
