// Lattice algebra for C11/C12: a copy of the word lattice read through the
// public iterators, graph invariants, path simulation on the grammar,
// independent longest-path / path enumeration / forward-backward.
#pragma once
#include "fsa.h"
#include "pbt.h"

extern "C" {
#include <soundswallower/lattice.h>
#include <soundswallower/logmath.h>
}

#include <algorithm>
#include <cmath>
#include <map>
#include <set>
#include <string>
#include <vector>

namespace lat {

struct Link {
  latlink_t *p;
  int from, to;
  int ef;
  long ascr;
};
struct Node {
  latnode_t *p;
  std::string word, base;
  int sf, fef, lef;
  std::vector<int> out, in; // link indices
};
struct Lat {
  std::vector<Node> nodes;
  std::vector<Link> links;
  int start = -1, end = -1;
  int nframes = 0;
  std::string problem; // structural inconsistency found while reading
};

inline Lat read(lattice_t *dag) {
  Lat L;
  L.nframes = lattice_n_frames(dag);
  std::map<latnode_t *, int> idx;
  for (latnode_iter_t *it = ps_latnode_iter(dag); it; it = ps_latnode_iter_next(it)) {
    latnode_t *n = ps_latnode_iter_node(it);
    Node x;
    x.p = n;
    int16 fef = 0, lef = 0;
    x.sf = latnode_times(n, &fef, &lef);
    x.fef = n->fef; // the accessor narrows to int16; keep the full value as well
    x.lef = n->lef;
    if ((int16)x.fef != fef || (int16)x.lef != lef) L.problem = "latnode_times disagrees with the node";
    x.word = ps_latnode_word(dag, n);
    x.base = ps_latnode_baseword(dag, n);
    idx[n] = (int)L.nodes.size();
    L.nodes.push_back(x);
    if (L.nodes.size() > 200000) {
      L.problem = "node list does not terminate";
      return L;
    }
  }
  std::map<latlink_t *, int> lidx;
  for (size_t i = 0; i < L.nodes.size(); ++i) {
    for (latlink_iter_t *li = ps_latnode_exits(L.nodes[i].p); li; li = ps_latlink_iter_next(li)) {
      latlink_t *l = ps_latlink_iter_link(li);
      latnode_t *src = NULL;
      latnode_t *dst = ps_latlink_nodes(l, &src);
      Link k;
      k.p = l;
      if (src != L.nodes[i].p) L.problem = "a link in a node's exit list does not start at that node";
      if (!idx.count(dst)) {
        L.problem = "a link leads to a node that is not in the node list";
        continue;
      }
      k.from = (int)i;
      k.to = idx[dst];
      int16 sf = 0;
      k.ef = latlink_times(l, &sf);
      k.ascr = l->ascr;
      lidx[l] = (int)L.links.size();
      L.nodes[i].out.push_back((int)L.links.size());
      L.links.push_back(k);
    }
  }
  for (size_t i = 0; i < L.nodes.size(); ++i) {
    for (latlink_iter_t *li = ps_latnode_entries(L.nodes[i].p); li; li = ps_latlink_iter_next(li)) {
      latlink_t *l = ps_latlink_iter_link(li);
      auto it = lidx.find(l);
      if (it == lidx.end()) {
        L.problem = "a link in a node's entry list is not in any node's exit list";
        continue;
      }
      if (L.links[it->second].to != (int)i) L.problem = "a link in a node's entry list does not end at that node";
      L.nodes[i].in.push_back(it->second);
    }
  }
  size_t nin = 0;
  for (auto &n : L.nodes) nin += n.in.size();
  if (nin != L.links.size() && L.problem.empty()) L.problem = "entry lists and exit lists hold different numbers of links";
  if (dag->start && idx.count(dag->start)) L.start = idx[dag->start];
  if (dag->end && idx.count(dag->end)) L.end = idx[dag->end];
  return L;
}

// topological order from the start over out-links; empty if a cycle exists
inline std::vector<int> topo(const Lat &L, bool *cyclic) {
  std::vector<int> indeg(L.nodes.size(), 0), order;
  for (auto &l : L.links) ++indeg[l.to];
  std::vector<int> q;
  for (size_t i = 0; i < L.nodes.size(); ++i)
    if (indeg[i] == 0) q.push_back((int)i);
  while (!q.empty()) {
    int n = q.back();
    q.pop_back();
    order.push_back(n);
    for (int li : L.nodes[n].out)
      if (--indeg[L.links[li].to] == 0) q.push_back(L.links[li].to);
  }
  *cyclic = order.size() != L.nodes.size();
  return order;
}

inline std::vector<bool> reach(const Lat &L, int from, bool forward) {
  std::vector<bool> seen(L.nodes.size(), false);
  if (from < 0) return seen;
  std::vector<int> q{from};
  seen[from] = true;
  while (!q.empty()) {
    int n = q.back();
    q.pop_back();
    for (int li : forward ? L.nodes[n].out : L.nodes[n].in) {
      int m = forward ? L.links[li].to : L.links[li].from;
      if (!seen[m]) {
        seen[m] = true;
        q.push_back(m);
      }
    }
  }
  return seen;
}

inline bool synthetic(const Lat &L, int n) {
  return (n == L.start && L.nodes[n].word == "<s>") || (n == L.end && L.nodes[n].word == "</s>");
}

// number of start->end paths (saturating)
inline double countPaths(const Lat &L, const std::vector<int> &order) {
  std::vector<double> cnt(L.nodes.size(), 0);
  if (L.start < 0) return 0;
  cnt[L.start] = 1;
  for (int n : order)
    for (int li : L.nodes[n].out) cnt[L.links[li].to] = std::min(1e15, cnt[L.links[li].to] + cnt[n]);
  return L.end >= 0 ? cnt[L.end] : 0;
}

} // namespace lat
