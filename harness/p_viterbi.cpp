// C02 — with pruning disabled the search returns the true Viterbi optimum.
// An explicit token-passing DP over the expanded grammar x pronunciation x
// triphone x HMM-state network, written from the model definition and fed
// with the senone scores the scorer produced for the very run being judged
// (captured with --wrap=acmod_score).  Shares no code or data structure with
// fsg_lextree / fsg_history.
#include "common/decode.h"

extern "C" {
#include <soundswallower/config_defs.h>
#include <soundswallower/fe.h>
#include <soundswallower/cmn.h>
#include <soundswallower/feat.h>
#include <soundswallower/acmod.h>
#include <soundswallower/ckd_alloc.h>
#include <soundswallower/bin_mdef.h>
#include <soundswallower/hmm.h>
#include <soundswallower/tmat.h>
int16 const *__real_acmod_score(acmod_t *acmod, int *inout_frame_idx);
}

#include <climits>
#include <cmath>
#include <cstring>
#include <map>

using namespace pbt;
using namespace dec;

namespace {
bool gInspect = false;
std::string gInspectProblem, gInspectKey;
long gInspected = 0;
void inspectFrame(acmod_t *acmod, int16 const *scr, int frame) {
  if (!gInspectProblem.empty()) return;
  ++gInspected;
  int fi = frame;
  mfcc_t **feat = acmod_get_frame(acmod, &fi);
  if (feat) {
    int nstream = feat_dimension1(acmod->fcb);
    for (int i = 0; i < nstream; ++i)
      for (unsigned j = 0; j < feat_dimension2(acmod->fcb, i); ++j)
        if (!std::isfinite(feat[i][j])) {
          gInspectKey = "non-finite-feature";
          gInspectProblem = "frame " + std::to_string(frame) + ": feature stream " + std::to_string(i) + " component " + std::to_string(j) + " is " + std::to_string(feat[i][j]);
          return;
        }
  }
  int n = bin_mdef_n_sen(acmod->mdef);
  int best = INT_MAX;
  if (acmod->compallsen) {
    for (int i = 0; i < n; ++i) {
      if (scr[i] < 0) {
        gInspectKey = "senone-score-out-of-range";
        gInspectProblem = "frame " + std::to_string(frame) + ": senone " + std::to_string(i) + " scores " + std::to_string(scr[i]);
        return;
      }
      best = std::min(best, (int)scr[i]);
    }
  } else {
    int sen = 0;
    for (int i = 0; i < acmod->n_senone_active; ++i) {
      sen += acmod->senone_active[i];
      if (scr[sen] < 0) {
        gInspectKey = "senone-score-out-of-range";
        gInspectProblem = "frame " + std::to_string(frame) + ": active senone " + std::to_string(sen) + " scores " + std::to_string(scr[sen]);
        return;
      }
      best = std::min(best, (int)scr[sen]);
    }
    if (acmod->n_senone_active == 0) best = 0;
  }
  if (best != 0) {
    gInspectKey = "best-senone-score-not-zero";
    gInspectProblem = "frame " + std::to_string(frame) + ": best senone score is " + std::to_string(best) + ", not normalised to 0";
  }
}
bool gCapture = false;
std::map<int, std::vector<int16>> gScores; // frame -> senone scores (first pass)
} // namespace

extern "C" int16 const *__wrap_acmod_score(acmod_t *acmod, int *inout_frame_idx) {
  int16 const *r = __real_acmod_score(acmod, inout_frame_idx);
  if (gInspect && r && inout_frame_idx) inspectFrame(acmod, r, *inout_frame_idx);
  if (gCapture && r && inout_frame_idx) {
    int n = bin_mdef_n_sen(acmod->mdef);
    gScores[*inout_frame_idx] = std::vector<int16>(r, r + n);
  }
  return r;
}

namespace {

decoder_t *gDec = nullptr;
const long NEG = -(1L << 50);

inline long add(long a, long b) { return (a <= NEG / 2) ? NEG : a + b; }

// ---------------------------------------------------- independent model lookup
struct Model {
  bin_mdef_t *m;
  explicit Model(bin_mdef_t *m_) : m(m_) {}
  int nci() const { return m->n_ciphone; }
  int sil() const { return m->sil; }
  bool filler(int ci) const { return m->phone[ci].info.ci.filler != 0; }
  // exact triphone by linear scan over the phone table
  int exact(int b, int l, int r, int pos) const {
    int ll = (sil() >= 0 && filler(l)) ? sil() : l;
    int rr = (sil() >= 0 && filler(r)) ? sil() : r;
    for (int p = m->n_ciphone; p < m->n_phone; ++p) {
      const mdef_entry_t &e = m->phone[p];
      if (e.info.cd.wpos == pos && e.info.cd.ctx[0] == b && e.info.cd.ctx[1] == ll && e.info.cd.ctx[2] == rr) return p;
    }
    return -1;
  }
  // documented back-off chain (other word positions, silence contexts at word edges, CI phone)
  int nearest(int b, int l, int r, int pos) const {
    int p = exact(b, l, r, pos);
    if (p >= 0) return p;
    for (int tp = 0; tp < N_WORD_POSN; ++tp)
      if (tp != pos && (p = exact(b, l, r, tp)) >= 0) return p;
    if (sil() >= 0) {
      int nl = l, nr = r;
      if (filler(l) || pos == WORD_POSN_BEGIN || pos == WORD_POSN_SINGLE) nl = sil();
      if (filler(r) || pos == WORD_POSN_END || pos == WORD_POSN_SINGLE) nr = sil();
      if (nl != l || nr != r) {
        if ((p = exact(b, nl, nr, pos)) >= 0) return p;
        for (int tp = 0; tp < N_WORD_POSN; ++tp)
          if (tp != pos && (p = exact(b, nl, nr, tp)) >= 0) return p;
      }
    }
    return b;
  }
  int ssid(int pid) const { return m->phone[pid].ssid; }
  int tmatOf(int ci) const { return m->phone[ci].tmat; }
  int senone(int ssid_, int st) const { return m->sseq[ssid_][st]; }
};

// --------------------------------------------------------------- the network
struct Hmm {
  int ssid = -1, tmat = -1;
  long s[3] = {NEG, NEG, NEG};
  long out = NEG;
};

struct ArcNet {
  int from, to;
  long lscr; // logs2prob >> SENSCR_SHIFT
  std::string word;
  std::vector<int> pron;
  enum { FILLER, SINGLE, MULTI } kind;
  int fp, lp;                 // phones presented to the left / right neighbours
  std::vector<Hmm> first;     // per left-context phone (FILLER: one entry)
  std::vector<Hmm> mid;       // internal phones 1..n-2
  std::vector<Hmm> last;      // per right-context phone (MULTI only)
};

struct RefResult {
  long best = NEG;     // best final-state entry in the last frame that has entries
  int lastFrame = -2;  // that frame
  bool clampRegime = false;
  long maxSpread = 0;
};

struct Reference {
  Model mdl;
  decoder_t *d;
  fsg_search_t *fs;
  std::vector<ArcNet> arcs;
  struct NullArc {
    int from, to;
    long lscr;
  };
  std::vector<NullArc> nulls;
  int nstate, start, fin;
  long wip, pip;
  uint8 ***tp;
  std::string problem;

  Reference(decoder_t *d_) : mdl(d_->acmod->mdef), d(d_), fs((fsg_search_t *)d_->search) {
    fsg_model_t *fsg = fs->fsg;
    nstate = fsg_model_n_state(fsg);
    start = fsg_model_start_state(fsg);
    fin = fsg_model_final_state(fsg);
    wip = fs->wip;
    pip = fs->pip;
    tp = d->acmod->tmat->tp;
    int nci = mdl.nci();
    for (int s = 0; s < nstate; ++s)
      for (fsg_arciter_t *it = fsg_model_arcs(fsg, s); it; it = fsg_arciter_next(it)) {
        fsg_link_t *l = fsg_arciter_get(it);
        long lscr = fsg_link_logs2prob(l) >> SENSCR_SHIFT;
        if (fsg_link_wid(l) < 0) {
          nulls.push_back({fsg_link_from_state(l), fsg_link_to_state(l), lscr});
          continue;
        }
        ArcNet a;
        a.from = fsg_link_from_state(l);
        a.to = fsg_link_to_state(l);
        a.lscr = lscr;
        a.word = fsg_model_word_str(fsg, fsg_link_wid(l));
        int32 wid = dict_wordid(d->dict, a.word.c_str());
        if (wid == BAD_S3WID) {
          problem = "grammar word not in dictionary: " + a.word;
          continue;
        }
        for (int p = 0; p < dict_pronlen(d->dict, wid); ++p) a.pron.push_back(dict_pron(d->dict, wid, p));
        bool fill = dict_filler_word(d->dict, wid) || fsg_model_is_filler(fsg, fsg_link_wid(l));
        int n = (int)a.pron.size();
        if (fill && n == 1) {
          a.kind = ArcNet::FILLER;
          a.fp = a.lp = mdl.sil();
          Hmm h;
          h.ssid = mdl.ssid(a.pron[0]);
          h.tmat = mdl.tmatOf(a.pron[0]);
          a.first.push_back(h);
        } else if (n == 1) {
          a.kind = ArcNet::SINGLE;
          a.fp = a.lp = a.pron[0];
          for (int lc = 0; lc < nci; ++lc) {
            Hmm h;
            h.ssid = mdl.ssid(mdl.nearest(a.pron[0], lc, mdl.sil(), WORD_POSN_SINGLE));
            h.tmat = mdl.tmatOf(a.pron[0]);
            a.first.push_back(h);
          }
        } else {
          a.kind = ArcNet::MULTI;
          a.fp = a.pron[0];
          a.lp = a.pron[n - 1];
          for (int lc = 0; lc < nci; ++lc) {
            Hmm h;
            h.ssid = mdl.ssid(mdl.nearest(a.pron[0], lc, a.pron[1], WORD_POSN_BEGIN));
            h.tmat = mdl.tmatOf(a.pron[0]);
            a.first.push_back(h);
          }
          for (int k = 1; k + 1 < n; ++k) {
            Hmm h;
            h.ssid = mdl.ssid(mdl.nearest(a.pron[k], a.pron[k - 1], a.pron[k + 1], WORD_POSN_INTERNAL));
            h.tmat = mdl.tmatOf(a.pron[k]);
            a.mid.push_back(h);
          }
          for (int rc = 0; rc < nci; ++rc) {
            Hmm h;
            h.ssid = mdl.ssid(mdl.nearest(a.pron[n - 1], a.pron[n - 2], rc, WORD_POSN_END));
            h.tmat = mdl.tmatOf(a.pron[n - 1]);
            a.last.push_back(h);
          }
        }
        arcs.push_back(a);
      }
  }

  // one frame of the 3-state left-to-right evaluator (emission of the source state, then transitions)
  void eval(Hmm &h, const std::vector<int16> &S) {
    uint8 **t = tp[h.tmat];
    auto T = [&](int i, int j) -> long { return -(long)t[i][j]; };
    auto present = [&](int i, int j) { return t[i][j] != 255; };
    long s2 = add(h.s[2], -(long)S[(size_t)mdl.senone(h.ssid, 2)]);
    long s1 = add(h.s[1], -(long)S[(size_t)mdl.senone(h.ssid, 1)]);
    long s0 = add(h.s[0], -(long)S[(size_t)mdl.senone(h.ssid, 0)]);
    long out = NEG;
    if (s1 > NEG) {
      out = add(s2, T(2, 3));
      if (present(1, 3)) out = std::max(out, add(s1, T(1, 3)));
    }
    long n2 = std::max(add(s2, T(2, 2)), add(s1, T(1, 2)));
    if (present(0, 2)) n2 = std::max(n2, add(s0, T(0, 2)));
    long n1 = std::max(add(s1, T(1, 1)), add(s0, T(0, 1)));
    long n0 = add(s0, T(0, 0));
    h.s[0] = n0;
    h.s[1] = n1;
    h.s[2] = n2;
    h.out = out;
  }

  // E[state][lc][rcC] with rcC in 0..nci (nci = ANY)
  typedef std::vector<std::vector<std::vector<long>>> Entry;
  Entry emptyEntry() const { return Entry((size_t)nstate, std::vector<std::vector<long>>((size_t)mdl.nci(), std::vector<long>((size_t)mdl.nci() + 1, NEG))); }

  // Right contexts modelled for words ending in state s (documented construction in
  // fsg_lextree.h): SIL plus the first phones of every word that can follow, directly or
  // through null transitions.  Exits through other right-context models do not exist.
  std::vector<std::vector<bool>> rcSets;
  void computeRc() {
    int nci = mdl.nci();
    rcSets.assign((size_t)nstate, std::vector<bool>((size_t)nci, false));
    for (int s = 0; s < nstate; ++s) rcSets[(size_t)s][(size_t)mdl.sil()] = true;
    for (auto &a : arcs) rcSets[(size_t)a.from][(size_t)a.fp] = true;
    bool changed = true;
    while (changed) {
      changed = false;
      for (auto &n : nulls)
        for (int i = 0; i < nci; ++i)
          if (rcSets[(size_t)n.to][(size_t)i] && !rcSets[(size_t)n.from][(size_t)i]) {
            rcSets[(size_t)n.from][(size_t)i] = true;
            changed = true;
          }
    }
  }

  void nullProp(Entry &E) const {
    bool changed = true;
    int guard = 0;
    while (changed && guard++ < nstate + 2) {
      changed = false;
      for (auto &n : nulls)
        for (int lc = 0; lc < mdl.nci(); ++lc)
          for (int rc = 0; rc <= mdl.nci(); ++rc) {
            long v = add(E[(size_t)n.from][(size_t)lc][(size_t)rc], n.lscr);
            if (v > E[(size_t)n.to][(size_t)lc][(size_t)rc]) {
              E[(size_t)n.to][(size_t)lc][(size_t)rc] = v;
              changed = true;
            }
          }
    }
  }

  bool anyFinite(const Entry &E) const {
    for (auto &a : E)
      for (auto &b : a)
        for (long v : b)
          if (v > NEG) return true;
    return false;
  }

  void enterFrom(const Entry &E) {
    int nci = mdl.nci();
    for (auto &a : arcs) {
      long pen = wip + pip + (a.kind == ArcNet::MULTI ? 0 : a.lscr);
      for (int lc = 0; lc < nci; ++lc)
        for (int rc = 0; rc <= nci; ++rc) {
          long e = E[(size_t)a.from][(size_t)lc][(size_t)rc];
          if (e <= NEG) continue;
          if (rc != nci && rc != a.fp) continue;
          Hmm &h = a.kind == ArcNet::FILLER ? a.first[0] : a.first[(size_t)lc];
          long v = e + pen;
          if (v > h.s[0]) h.s[0] = v;
        }
    }
  }

  RefResult run(int T, const std::map<int, std::vector<int16>> &scores) {
    RefResult res;
    int nci = mdl.nci();
    computeRc();
    Entry E = emptyEntry();
    E[(size_t)start][(size_t)mdl.sil()][(size_t)nci] = 0;
    nullProp(E);
    Entry lastE = E;
    res.lastFrame = -1;
    enterFrom(E);
    for (int t = 0; t < T; ++t) {
      auto it = scores.find(t);
      if (it == scores.end()) {
        problem = "no senone scores captured for frame " + std::to_string(t);
        return res;
      }
      const std::vector<int16> &S = it->second;
      long frameBest = NEG, frameWorst = 0;
      // evaluate
      for (auto &a : arcs) {
        for (auto *v : {&a.first, &a.mid, &a.last})
          for (auto &h : *v) {
            if (h.s[0] <= NEG && h.s[1] <= NEG && h.s[2] <= NEG) {
              h.out = NEG;
              continue;
            }
            eval(h, S);
            for (long x : {h.s[0], h.s[1], h.s[2]})
              if (x > NEG) {
                frameBest = std::max(frameBest, x);
                frameWorst = std::min(frameWorst, x);
              }
          }
      }
      if (frameBest > NEG) {
        res.maxSpread = std::max(res.maxSpread, frameBest - frameWorst);
        if (frameWorst < (long)WORST_SCORE / 2) res.clampRegime = true;
      }
      // phone transitions inside words (effective in the next frame)
      Entry En = emptyEntry();
      for (auto &a : arcs) {
        if (a.kind == ArcNet::MULTI) {
          long o = NEG;
          for (auto &h : a.first) o = std::max(o, h.out);
          size_t nmid = a.mid.size();
          for (size_t k = 0; k < nmid; ++k) {
            if (o > NEG) a.mid[k].s[0] = std::max(a.mid[k].s[0], o + pip);
            o = a.mid[k].out; // out of this frame's evaluation (before the entry just made)
          }
          if (o > NEG)
            for (auto &h : a.last) h.s[0] = std::max(h.s[0], o + pip + a.lscr);
          for (int rc = 0; rc < nci; ++rc) {
            if (!rcSets[(size_t)a.to][(size_t)rc]) continue;
            long x = a.last[(size_t)rc].out;
            if (x > NEG) En[(size_t)a.to][(size_t)a.lp][(size_t)rc] = std::max(En[(size_t)a.to][(size_t)a.lp][(size_t)rc], x);
          }
        } else {
          for (auto &h : a.first)
            if (h.out > NEG) En[(size_t)a.to][(size_t)a.lp][(size_t)nci] = std::max(En[(size_t)a.to][(size_t)a.lp][(size_t)nci], h.out);
        }
      }
      nullProp(En);
      if (anyFinite(En)) {
        lastE = En;
        res.lastFrame = t;
      }
      enterFrom(En);
    }
    {
      // (the decoder reports the best final-state entry of the last frame that has any entry,
      // which can be the pseudo-frame -1 of the start state's null closure)
      long b = NEG;
      if (res.lastFrame >= 0) {
        for (auto &byLc : lastE[(size_t)fin])
          for (long v : byLc) b = std::max(b, v);
      } else {
        // pseudo-frame -1: the initial token itself is not a result, only what null arcs derive from it
        for (auto &n : nulls)
          if (n.to == fin)
            for (auto &byRc : lastE[(size_t)n.from])
              for (long v : byRc) b = std::max(b, add(v, n.lscr));
      }
      res.best = b;
    }
    return res;
  }
};

// ------------------------------------------------------------------ generator
struct VCase {
  std::vector<std::pair<std::string, std::string>> newWords; // spelling, pronunciation
  Gram gram;
  SearchCfg sc;
  std::vector<int16_t> audio;
  std::string adesc;
};

Verdict propC02(Choices &c, Ctx &ctx) {
  static const char *PH[] = {"AA", "AE", "AH", "AO", "AW", "AY", "B", "CH", "D", "DH", "EH", "ER", "EY", "F", "G", "HH", "IH", "IY", "JH", "K", "L", "M", "N", "NG", "OW", "OY", "P", "R", "S", "SH", "T", "TH", "UH", "UW", "V", "W", "Y", "Z", "ZH"};
  VCase k;
  // generated pronunciations so that contexts range over the whole phone set
  int nnew = (int)c.range(0, 4);
  std::vector<std::string> words;
  for (int i = 0; i < nnew; ++i) {
    int len = (int)c.weighted({3, 3, 3, 2}) + 1;
    std::string pron;
    for (int j = 0; j < len; ++j) pron += (j ? " " : "") + std::string(PH[c.range(0, 38)]);
    std::string w = "w" + std::to_string(i);
    k.newWords.push_back({w, pron});
    words.push_back(w);
  }
  const auto &V = vocab();
  int nold = (int)c.range(nnew ? 0 : 2, 3);
  for (int i = 0; i < nold; ++i) words.push_back(c.coin(50) ? V[(size_t)c.range(0, 7)] : V[(size_t)c.range(0, (int64_t)V.size() - 1)]);
  if (words.empty()) words = {"go", "a"};
  // FSG over those words
  {
    Gram &g = k.gram;
    g.kind = Gram::FSG;
    int ns = (int)c.range(1, 5);
    int start = (int)c.range(0, ns - 1);
    int fin = c.coin(15) ? start : (int)c.range(0, ns - 1);
    std::ostringstream t;
    t << "FSG_BEGIN gen\nNUM_STATES " << ns << "\nSTART_STATE " << start << "\nFINAL_STATE " << fin << "\n";
    int narcs = (int)c.range(1, 9);
    bool backbone = c.coin(80);
    for (int i = 0; i < narcs; ++i) {
      int from, to;
      if (backbone && i < ns) {
        from = (start + i) % ns;
        to = (i == ns - 1 || c.coin(30)) ? fin : (start + i + 1) % ns;
      } else {
        from = (int)c.range(0, ns - 1);
        to = c.coin(15) ? from : (int)c.range(0, ns - 1);
      }
      bool isNull = c.coin(12) && from != to;
      double p = c.coin(50) ? 1.0 : (double)c.range(1, 1000) / 1000.0;
      if (isNull) t << "TRANSITION " << from << " " << to << " " << p << "\n";
      else
        t << "TRANSITION " << from << " " << to << " " << p << " " << words[(size_t)c.range(0, (int64_t)words.size() - 1)] << "\n";
    }
    t << "FSG_END\n";
    g.text = t.str();
    g.desc = "FSG: " + g.text;
  }
  k.sc.beam = k.sc.pbeam = k.sc.wbeam = 0;
  k.sc.lw = (double[]){6.5, 1.0, 9.5}[c.weighted({3, 2, 2})];
  k.sc.wip = (double[]){0.65, 1.0, 0.2}[c.weighted({3, 2, 2})];
  k.sc.pip = c.coin(30) ? 0.5 : 1.0;
  k.sc.usefiller = !c.coin(25);
  k.sc.usealt = !c.coin(25);
  long N = c.coin(15) ? c.range(1, 2000) : c.range(2000, 19000); // 1-118 frames
  k.audio = audio::recipe(c, (size_t)N, k.adesc, true, 16);
  std::ostringstream dsc;
  dsc << k.sc.str() << " | new words:";
  for (auto &w : k.newWords) dsc << " " << w.first << "=[" << w.second << "]";
  dsc << " | " << k.gram.desc << " | N=" << N << " " << k.adesc;
  ctx.describe(dsc.str());

  decoder_t *d = gDec;
  for (auto &w : k.newWords) PBT_CHECK(decoder_add_word(d, w.first.c_str(), w.second.c_str(), 0) >= 0, "add-word-refused", "valid word refused: " << w.first << " " << w.second);
  applySearchCfg(d, k.sc);
  config_set_int(decoder_config(d), "maxhmmpf", -1);
  PBT_CHECK(install(d, k.gram) == 0, "install-refused", "valid grammar refused: " << k.gram.desc);
  fsg_search_t *fs = (fsg_search_t *)d->search;
  gScores.clear();
  gCapture = true;
  PBT_CHECK(decoder_start_utt(d) == 0, "start-utt-failed", "start_utt failed");
  {
    int16_t *blk = (int16_t *)malloc(k.audio.size() * 2 + 2);
    memcpy(blk, k.audio.data(), k.audio.size() * 2);
    int r = decoder_process_int16(d, blk, k.audio.size(), 0, 0);
    free(blk);
    PBT_CHECK(r >= 0, "process-error", "process returned " << r);
  }
  PBT_CHECK(decoder_end_utt(d) == 0, "end-utt-failed", "end_utt failed");
  gCapture = false;
  int T = fs->frame;
  Obs o = observe(d);

  Reference ref(d);
  PBT_CHECK(ref.problem.empty(), "harness-network", ref.problem);
  // penalties as documented: (int)(log(p) * lw) >> 10
  {
    logmath_t *lm = d->acmod->lmath;
    long wantWip = (int32)(logmath_log(lm, k.sc.wip) * (float)k.sc.lw) >> SENSCR_SHIFT;
    long wantPip = (int32)(logmath_log(lm, k.sc.pip) * (float)k.sc.lw) >> SENSCR_SHIFT;
    PBT_CHECK(wantWip == fs->wip && wantPip == fs->pip, "penalty-computation", "search uses wip/pip " << fs->wip << "/" << fs->pip << ", documented formula gives " << wantWip << "/" << wantPip);
  }
  RefResult rr = ref.run(T, gScores);
  PBT_CHECK(ref.problem.empty(), "harness-network", ref.problem);
  if (rr.clampRegime || rr.maxSpread > (1L << 18)) {
    ctx.label("out-of-regime(clamping)");
    return Verdict::pass();
  }
  bool multiLc = false;
  for (auto &a : ref.arcs)
    if (a.kind == ArcNet::MULTI) {
      std::set<int> ss;
      for (auto &h : a.first) ss.insert(h.ssid);
      if (ss.size() > 1) multiLc = true;
    }
  ctx.labelIf(multiLc, "word-with->=2-left-context-models");
  ctx.labelIf(!ref.nulls.empty(), "null-arcs");
  ctx.labelIf(!k.newWords.empty(), "generated-pronunciations");
  ctx.labelIf(rr.best <= NEG, "reference:no-sentence");
  ctx.labelIf(T <= 3, "frames<=3");
  std::ostringstream cmp;
  cmp << "T=" << T << " decoder: " << o.str() << " | reference optimum " << (rr.best <= NEG ? std::string("none") : std::to_string(rr.best)) << " in frame " << rr.lastFrame;
  if (rr.lastFrame < 0) {
    // No word exit in any frame: whatever is reported comes from the null closure of the start
    // state before the first frame (no audio frame is aligned at all).  The closure drops null
    // round trips as redundant, so only the one-sided bound is meaningful here.
    ctx.label("result-at-pseudo-frame(-1)");
    if (o.hasSeg) {
      long total = 0;
      for (auto &s : o.segs) total += (long)s.ascr + s.lscr;
      PBT_CHECK(rr.best > NEG && total <= rr.best, "score-above-optimum", cmp.str());
    }
    return Verdict::pass();
  }
  if (rr.best <= NEG) {
    PBT_CHECK(!o.hasSeg, "hypothesis-without-legal-alignment", "no alignment of the audio to any sentence exists, yet a result was returned: " << cmp.str());
    return Verdict::pass();
  }
  // a legal alignment exists: the decoder must find it (segmentation at least; hyp may be NULL if only fillers)
  PBT_CHECK(o.hasSeg, "optimum-missed:no-result", "a legal alignment scoring " << rr.best << " exists but the decoder returned nothing: " << cmp.str());
  long total = 0;
  for (auto &s : o.segs) total += (long)s.ascr + s.lscr;
  if (total != rr.best) {
    std::string key = total < rr.best ? "score-below-optimum" : "score-above-optimum";
    return Verdict::fail(key, cmp.str() + " | decoder path score " + std::to_string(total));
  }
  if (o.hasHyp) PBT_CHECK((long)o.score == rr.best, "hyp-score-vs-segmentation", "decoder_hyp score " << o.score << " differs from the segmentation total " << total);
  std::vector<std::string> W = project(d, o.segs);
  ctx.nontrivial = W.size() >= 2 || (W.size() >= 1 && multiLc);
  return Verdict::pass();
}


// ------------------------------------- C18: finite features, in-range scores
decoder_t *gDecPlain = nullptr; // compallsen = no
// the scorers the bundled models never select, on layouts derived from en-us (tools/gen_models.py, DESIGN.md 9.9):
// semi-continuous (s2_semi_mgau.c), general multi-stream (ms_mgau.c), PTM reading float mixture weights
decoder_t *gDecSemi = nullptr, *gDecMs = nullptr, *gDecMixw = nullptr;

std::vector<int16_t> adversarial(Choices &c, size_t n, std::string &desc, bool &useFloat, float &fscale) {
  std::vector<int16_t> v(n);
  useFloat = false;
  fscale = 1.0f;
  size_t fam = c.weighted({3, 3, 3, 2, 2, 3, 2, 3, 2, 2});
  audio::Lcg g((uint64_t)c.range(0, 1 << 20));
  switch (fam) {
  case 0: desc = "digital-silence"; break;
  case 1: {
    static const int dc[] = {32767, -32768, 1, -1};
    int x = dc[c.range(0, 3)];
    for (auto &s : v) s = (int16_t)x;
    desc = "dc(" + std::to_string(x) + ")";
    break;
  }
  case 2: {
    int period = (int)(int[]){2, 4, 16, 160, 410, 2000}[c.range(0, 5)];
    for (size_t i = 0; i < n; ++i) v[i] = ((i % (size_t)period) < (size_t)period / 2) ? 32767 : -32768;
    desc = "full-scale-square(period=" + std::to_string(period) + ")";
    break;
  }
  case 3:
    if (n) v[(size_t)c.range(0, (int64_t)n - 1)] = (int16_t)(c.coin(50) ? 32767 : -32768);
    desc = "single-impulse";
    break;
  case 4: {
    int period = (int)c.range(1, 4000);
    for (size_t i = 0; i < n; i += (size_t)period) v[i] = 32767;
    desc = "impulse-train(period=" + std::to_string(period) + ")";
    break;
  }
  case 5: {
    int lev = c.coin(50) ? 1 : 32767;
    for (size_t i = 0; i < n; ++i) v[i] = (int16_t)((long)(g.next() % (2 * (uint32_t)lev + 1)) - lev);
    desc = "white-noise(level=" + std::to_string(lev) + ")";
    break;
  }
  case 6: {
    const auto &src = audio::goforward();
    int mode = (int)c.range(0, 1);
    for (size_t i = 0; i < n; ++i) {
      long x = src[i % src.size()];
      v[i] = mode == 0 ? 0 : audio::sat(x * 50);
    }
    desc = mode == 0 ? "speech-times-zero" : "speech-clipped(x50)";
    break;
  }
  case 7: {
    int block = (int)c.range(100, 8000);
    for (size_t i = 0; i < n; ++i) v[i] = ((i / (size_t)block) & 1) ? (int16_t)((long)(g.next() % 65535) - 32767) : 0;
    desc = "silence/full-scale-noise(block=" + std::to_string(block) + ")";
    break;
  }
  case 8: {
    useFloat = true;
    fscale = (float[]){1.0f, 4.0f, 1e-6f, 100.0f}[c.range(0, 3)];
    for (size_t i = 0; i < n; ++i) v[i] = (i & 1) ? 32767 : -32768;
    desc = "float32-alternating(+-" + std::to_string(fscale) + ")";
    break;
  }
  default: {
    const auto &src = audio::goforward();
    size_t off = (size_t)c.range(0, 20000);
    for (size_t i = 0; i < n; ++i) v[i] = src[(off + i) % src.size()];
    desc = "speech(off=" + std::to_string(off) + ")";
    break;
  }
  }
  return v;
}

Verdict cmnFixpoint(decoder_t *d, const char *when) {
  // with the update first: the set_cmn below re-seeds the frame counter and would hide a state that
  // only the update after the utterance can reach
  for (int upd = 1; upd >= 0; --upd) {
    const char *g = decoder_get_cmn(d, upd);
    PBT_CHECK(g != NULL, "cmn-text", when << ": decoder_get_cmn returned NULL");
    std::string g1 = g;
    // every field parses as a finite number
    std::istringstream is(g1);
    std::string tok;
    int nval = 0;
    while (std::getline(is, tok, ',')) {
      char *end = nullptr;
      double x = strtod(tok.c_str(), &end);
      PBT_CHECK(end != tok.c_str() && *end == '\0' && std::isfinite(x), "cmn-state-not-finite", when << ": channel-normalisation text '" << g1 << "' has the field '" << tok << "'");
      ++nval;
    }
    PBT_CHECK(nval == 13, "cmn-text", when << ": " << nval << " values in '" << g1 << "'");
    PBT_CHECK(decoder_set_cmn(d, g1.c_str()) == 0, "cmn-text", when << ": set_cmn refused the exported text");
    std::string g2 = decoder_get_cmn(d, 0);
    PBT_CHECK(g1 == g2, "cmn-text-not-fixpoint", when << ": exported '" << g1 << "', re-imported and exported again '" << g2 << "'");
  }
  return Verdict::pass();
}

// the exported text says what the state is: every field of decoder_get_cmn(update = no) equals, to the six digits
// the text carries, the mean that is being subtracted right now (read through the installed header cmn.h)
Verdict cmnTextMatchesState(decoder_t *d, const char *when) {
  cmn_t *cm = d->acmod->fcb->cmn_struct;
  const char *g = decoder_get_cmn(d, 0);
  PBT_CHECK(g != NULL, "cmn-text", when << ": decoder_get_cmn returned NULL");
  std::string g1 = g;
  std::istringstream is(g1);
  std::string tok;
  int i = 0;
  while (std::getline(is, tok, ',') && i < cm->veclen) {
    double x = strtod(tok.c_str(), nullptr), m = (double)cm->cmn_mean[i];
    if (std::isfinite(m))
      PBT_CHECK(std::fabs(x - m) <= 2e-5 * std::fabs(m) + 1e-30, "cmn-text-differs-from-state", when << ": field " << i << " of the exported text '" << g1 << "' is " << x << " while the mean in use is " << m);
    ++i;
  }
  return Verdict::pass();
}

Verdict propC18(Choices &c, Ctx &ctx) {
  size_t family = c.weighted({4, 6});
  if (family == 0) {
    // ---- front end alone ----
    static const config_param_t fe_args[] = {FE_OPTIONS, {NULL, 0, NULL, NULL}};
    config_t *cfg = config_init(fe_args);
    static const int rates[] = {16000, 8000, 11025, 22050, 44100, 32000, 48000};
    int sr = rates[c.weighted({8, 3, 2, 2, 2, 2, 2})];
    int frate = (int[]){100, 50, 125, 200}[c.weighted({6, 2, 2, 2})];
    double wlen = (double[]){0.025625, 0.02, 0.032, 0.016}[c.weighted({5, 2, 2, 2})];
    config_set_int(cfg, "samprate", sr);
    config_set_int(cfg, "frate", frate);
    config_set_float(cfg, "wlen", wlen);
    const char *tr = (const char *[]){"legacy", "dct", "htk"}[c.weighted({3, 2, 1})];
    config_set_str(cfg, "transform", tr);
    bool rn = c.coin(50), rdc = c.coin(30), logspec = c.coin(12), smooth = !logspec && c.coin(10);
    config_set_bool(cfg, "remove_noise", rn);
    config_set_bool(cfg, "remove_dc", rdc);
    config_set_bool(cfg, "logspec", logspec);
    config_set_bool(cfg, "smoothspec", smooth);
    config_set_int(cfg, "lifter", c.coin(30) ? 22 : 0);
    int nfilt = 40;
    double lowerf = 133.33334, upperf = 6855.4976;
    size_t bank = c.weighted({4, 3, 3});
    if (sr < 16000 || bank == 1) {
      upperf = sr == 8000 ? 3500 : sr == 11025 ? 5000 : 3700;
      lowerf = 130;
      nfilt = (int)c.range(20, 31);
    } else if (bank == 2) {
      nfilt = (int)c.range(20, 40);
      upperf = sr >= 22050 ? (double)c.range(6000, 10000) : 6855.4976;
    }
    config_set_int(cfg, "nfilt", nfilt);
    config_set_float(cfg, "lowerf", lowerf);
    config_set_float(cfg, "upperf", upperf);
    config_set_float(cfg, "alpha", (double[]){0.97, 0.0}[c.weighted({4, 1})]);
    config_set_str(cfg, "input_endian", "little");
    // the filterbank needs at least one FFT bin between the rounded edges of every filter:
    // the lowest filters are the narrowest; their width in Hz vs the bin width decides
    long size = (long)((float)wlen * (float)sr + 0.5);
    int nfft = 1;
    while (nfft < size) nfft <<= 1;
    bool forceBig = c.coin(70);
    if (forceBig)
      while ((double)sr / nfft > 16.0) nfft <<= 1; // generous resolution: no degenerate filter
    if (nfft > 16384) nfft = 16384;
    config_set_int(cfg, "nfft", nfft);
    size_t N = (size_t)c.range(1, 30000);
    std::string sdesc;
    bool useFloat;
    float fscale;
    std::vector<int16_t> sig = adversarial(c, N, sdesc, useFloat, fscale);
    std::ostringstream d;
    d << "fe-only sr=" << sr << " frate=" << frate << " wlen=" << wlen << " nfft=" << nfft << " nfilt=" << nfilt << " lowerf=" << lowerf << " upperf=" << upperf << " transform=" << tr << (rn ? " remove_noise" : "") << (rdc ? " remove_dc" : "") << (logspec ? " logspec" : "") << (smooth ? " smoothspec" : "") << " | N=" << N << " " << sdesc;
    ctx.describe(d.str());
    fe_t *fe = fe_init(cfg);
    config_free(cfg);
    if (!fe) {
      ctx.label("fe:init-refused");
      return Verdict::pass();
    }
    int dim = fe_get_output_size(fe);
    int maxfr = (int)(N / 40) + 8;
    mfcc_t **buf = (mfcc_t **)ckd_calloc_2d(maxfr, dim, sizeof(mfcc_t));
    int nfr = 0;
    fe_start(fe);
    if (useFloat) {
      std::vector<float> f(N);
      for (size_t i = 0; i < N; ++i) f[i] = (float)sig[i] / 32768.0f * fscale;
      float *p = f.data();
      size_t ns = N;
      nfr = fe_process_float32(fe, &p, &ns, buf, maxfr - 1);
    } else {
      int16 *p = sig.data();
      size_t ns = N;
      nfr = fe_process_int16(fe, &p, &ns, buf, maxfr - 1);
    }
    if (nfr >= 0) nfr += fe_end(fe, buf + nfr, maxfr - nfr);
    Verdict res;
    for (int i = 0; i < nfr && res.ok; ++i)
      for (int j = 0; j < dim; ++j)
        if (!std::isfinite(buf[i][j])) {
          res = Verdict::fail(forceBig ? "fe-non-finite" : "fe-non-finite:coarse-fft", Msg() << "frame " << i << " coefficient " << j << " is " << buf[i][j] << " (" << nfr << " frames)");
          break;
        }
    ckd_free_2d(buf);
    fe_free(fe);
    ctx.label("family:fe-only");
    ctx.label("signal:" + sdesc.substr(0, sdesc.find('(')));
    ctx.nontrivial = nfr >= 3;
    return res;
  }
  // ---- through the decoder ----
  uint32_t dsel = c.raw();
  decoder_t *d = dsel % 100 >= 50 ? gDec : gDecPlain;
  const char *dname = d == gDec ? "compallsen" : "default";
  switch ((dsel / 100) % 10) { // small (shrunk) values keep the bundled model
  case 7: if (gDecSemi) d = gDecSemi, dname = "semi-continuous"; break;
  case 8: if (gDecMs) d = gDecMs, dname = "multi-stream"; break;
  case 9: if (gDecMixw) d = gDecMixw, dname = "ptm-float-weights"; break;
  }
  bool fullUtt = c.coin(30);
  size_t N;
  long tier = getenv("VERIF_TIER") && !strcmp(getenv("VERIF_TIER"), "thorough");
  switch (c.weighted({3, 6, tier ? 2 : 0, 2})) {
  case 0: N = (size_t)c.range(1, 4000); break;
  case 1: N = (size_t)c.range(4000, 48000); break;
  case 2: N = (size_t)c.range(480000, 2880000); break; // 30 s - 3 min
  default: N = (size_t)c.range(56000, 170000); break;  // 3.5 - 10 s: long enough for the live mean to shift its window
  }
  std::string sdesc;
  bool useFloat;
  float fscale;
  std::vector<int16_t> sig = adversarial(c, N, sdesc, useFloat, fscale);
  // a grammar the path cannot escape from: forced alignment of a repeated text, or a word loop
  std::string text;
  int nw = (int)c.range(1, 6);
  for (int i = 0; i < nw; ++i) text += (i ? " " : "") + vocab()[(size_t)c.range(0, 7)];
  SearchCfg sc = genSearchCfg(c);
  std::string cmninit;
  if (c.coin(25)) {
    double mag = (double[]){1e3, 1e6, 1e12, 1e30}[c.range(0, 3)];
    std::ostringstream o;
    o << (c.coin(50) ? mag : -mag) << "," << mag / 3 << ",-" << mag / 7;
    cmninit = o.str();
  }
  std::ostringstream ds;
  ds << "decoder(" << dname << ") " << sc.str() << (fullUtt ? " full_utt" : " streaming") << (cmninit.empty() ? "" : " set_cmn=" + cmninit) << " | align '" << text << "' | N=" << N << " " << sdesc;
  ctx.describe(ds.str());
  applySearchCfg(d, sc);
  PBT_CHECK(decoder_set_align_text(d, text.c_str()) == 0, "install-refused", "align text refused");
  if (!cmninit.empty()) PBT_CHECK(decoder_set_cmn(d, cmninit.c_str()) == 0, "cmn-text", "set_cmn refused " << cmninit);
  gInspect = true;
  gInspectProblem.clear();
  gInspected = 0;
  PBT_CHECK(decoder_start_utt(d) == 0, "start-utt-failed", "start_utt failed");
  size_t pos = 0;
  while (pos < N) {
    uint32_t lenRaw = c.raw(); // remainder: the block length as before; quotient: export the CMN text after this block?
    size_t len = fullUtt ? N : std::min<size_t>(N - pos, (size_t)(1000 + lenRaw % 19001));
    bool exportAfter = !fullUtt && (lenRaw / 19001) % 3 == 2;
    int r;
    if (useFloat) {
      std::vector<float> f(len);
      for (size_t i = 0; i < len; ++i) f[i] = (float)sig[pos + i] / 32768.0f * fscale;
      r = decoder_process_float32(d, f.data(), len, 0, fullUtt);
    } else {
      std::vector<int16_t> b(sig.begin() + (long)pos, sig.begin() + (long)(pos + len));
      r = decoder_process_int16(d, b.data(), len, 0, fullUtt);
    }
    PBT_CHECK(r >= 0, "process-error", "process returned " << r);
    pos += len;
    if (exportAfter) {
      Verdict v = cmnTextMatchesState(d, "in the middle of the utterance");
      if (!v.ok) {
        gInspect = false;
        return v;
      }
      ctx.label("cmn-text-read-mid-utterance");
      ctx.labelIf(pos > 300 * 160, "cmn-text-read-mid-utterance:after>300-frames");
    }
  }
  PBT_CHECK(decoder_end_utt(d) == 0, "end-utt-failed", "end_utt failed");
  gInspect = false;
  if (!gInspectProblem.empty()) return Verdict::fail(gInspectKey, gInspectProblem);
  Obs o = observe(d);
  if (o.hasSeg) {
    long total = 0;
    for (auto &s : o.segs) {
      long x = (long)s.ascr + s.lscr;
      PBT_CHECK(x <= 0, "positive-segment-score", "segment " << s.word << " scores " << x << " in " << o.str());
      total += x;
    }
    PBT_CHECK(total <= 0 && total >= (long)WORST_SCORE, "path-score-out-of-range", "path score " << total << " outside [WORST_SCORE, 0]");
    if (o.hasHyp) PBT_CHECK((long)o.score == total, "path-score-wrapped", "hyp score " << o.score << " vs sum of segment scores " << total);
  }
  Verdict v = cmnFixpoint(d, "after the utterance");
  if (!v.ok) return v;
  ctx.label("family:decoder");
  ctx.label(std::string("scorer:") + dname);
  ctx.label("signal:" + sdesc.substr(0, sdesc.find('(')));
  ctx.labelIf(N >= 480000, "length:>=30s");
  ctx.labelIf(!cmninit.empty(), "cmninit:large-magnitude");
  ctx.nontrivial = gInspected >= 10;
  return Verdict::pass();
}

void initViterbi() {
  err_set_loglevel(ERR_FATAL);
  DecCfg b;
  b.compallsen = true;
  gDec = makeDecoder(b);
  DecCfg pl;
  gDecPlain = makeDecoder(pl);
  if (!gDec || !gDecPlain) {
    fprintf(stderr, "decoder_init failed\n");
    exit(2);
  }
  audio::goforward();
  audio::goforwardFr();
}

decoder_t *makeDerived(const char *sub, const char *senmgau, bool compallsen) {
  config_t *cfg = config_init(NULL);
  config_set_str(cfg, "hmm", (derivedModelsDir() + "/" + sub).c_str());
  config_set_str(cfg, "dict", (verifDir() + "/data/mini.dic").c_str());
  config_set_str(cfg, "loglevel", "FATAL");
  config_set_bool(cfg, "compallsen", compallsen);
  if (senmgau) config_set_str(cfg, "senmgau", senmgau);
  return decoder_init(cfg);
}

void initC18() {
  initViterbi();
  gDecSemi = makeDerived("semi", nullptr, false);
  gDecMs = makeDerived("mixw", ".ptm.", true);
  gDecMixw = makeDerived("mixw", nullptr, false);
  if (!gDecSemi || !gDecMs || !gDecMixw) {
    fprintf(stderr, "a derived model layout does not load (semi=%p ms=%p mixw=%p)\n", (void *)gDecSemi, (void *)gDecMs, (void *)gDecMixw);
    exit(2);
  }
}

} // namespace

namespace pbt {
const PropDef kProps[] = {
    {"C02", propC02, true, 60000, initViterbi},
    {"C18", propC18, true, 240000, initC18},
    {nullptr, nullptr, false, 0, nullptr},
};
}
