// C06 — acoustic features do not depend on how the audio is chunked or encoded.
#include "common/audio.h"
#include "common/pbt.h"

extern "C" {
#include <soundswallower/ckd_alloc.h>
#include <soundswallower/config_defs.h>
#include <soundswallower/configuration.h>
#include <soundswallower/err.h>
#include <soundswallower/fe.h>
}

#include <cstring>
#include <memory>
#include <vector>

using namespace pbt;

namespace {

typedef std::vector<std::vector<mfcc_t>> Frames;

struct FeCfg {
  int samprate = 16000, frate = 100, nfft = 0, nfilt = 40, ncep = 13, lifter = 0;
  double wlen = 0.025625, lowerf = 133.33334, upperf = 6855.4976, alpha = 0.97;
  const char *transform = "legacy";
  bool remove_noise = false, remove_dc = false, logspec = false, smoothspec = false;
  bool bigendian = false, doublebw = false, unit_area = true, round_filters = true;
  std::string str() const {
    std::ostringstream o;
    o << "sr=" << samprate << " frate=" << frate << " wlen=" << wlen << " nfft=" << nfft << " nfilt=" << nfilt
      << " ncep=" << ncep << " lifter=" << lifter << " lowerf=" << lowerf << " upperf=" << upperf << " alpha=" << alpha
      << " transform=" << transform << (remove_noise ? " remove_noise" : "") << (remove_dc ? " remove_dc" : "")
      << (logspec ? " logspec" : "") << (smoothspec ? " smoothspec" : "") << (bigendian ? " big-endian" : "")
      << (doublebw ? " doublebw" : "") << (unit_area ? "" : " no-unit-area") << (round_filters ? "" : " no-round-filters");
    return o.str();
  }
};

fe_t *makeFe(const FeCfg &k) {
  static const config_param_t fe_args[] = {FE_OPTIONS, {NULL, 0, NULL, NULL}};
  config_t *cfg = config_init(fe_args);
  config_set_int(cfg, "samprate", k.samprate);
  config_set_int(cfg, "frate", k.frate);
  config_set_float(cfg, "wlen", k.wlen);
  config_set_int(cfg, "nfft", k.nfft);
  config_set_int(cfg, "nfilt", k.nfilt);
  config_set_int(cfg, "ncep", k.ncep);
  config_set_int(cfg, "lifter", k.lifter);
  config_set_float(cfg, "lowerf", k.lowerf);
  config_set_float(cfg, "upperf", k.upperf);
  config_set_float(cfg, "alpha", k.alpha);
  config_set_str(cfg, "transform", k.transform);
  config_set_bool(cfg, "remove_noise", k.remove_noise);
  config_set_bool(cfg, "remove_dc", k.remove_dc);
  config_set_bool(cfg, "logspec", k.logspec);
  config_set_bool(cfg, "smoothspec", k.smoothspec);
  config_set_bool(cfg, "doublebw", k.doublebw);
  config_set_bool(cfg, "unit_area", k.unit_area);
  config_set_bool(cfg, "round_filters", k.round_filters);
  config_set_str(cfg, "input_endian", k.bigendian ? "big" : "little");
  fe_t *fe = fe_init(cfg);
  config_free(cfg);
  return fe;
}

struct CepBuf {
  mfcc_t **buf;
  int n, dim;
  CepBuf(int n_, int dim_) : n(n_), dim(dim_) {
    buf = (mfcc_t **)ckd_calloc_2d(n, dim, sizeof(mfcc_t));
  }
  ~CepBuf() { ckd_free_2d(buf); }
};

void take(Frames &out, mfcc_t **buf, int nfr, int dim) {
  for (int i = 0; i < nfr; ++i) out.emplace_back(buf[i], buf[i] + dim);
}

// closed form: frames produced for N samples (full frames + flushed partial)
long frameFormula(long N, long size, long shift) {
  if (N <= 0) return 0;
  if (N < size) return 1;
  long F = (N - size) / shift + 1;
  return F + (N > F * shift ? 1 : 0);
}

template <class T> T *exactCopy(const T *src, size_t n) {
  // a heap block of exactly n elements so that any read outside is an ASan report
  T *p = (T *)malloc(n ? n * sizeof(T) : 1);
  if (n) memcpy(p, src, n * sizeof(T));
  return p;
}

// single call with unlimited output + fe_end
template <class T, class F> std::string singleCall(fe_t *fe, const std::vector<T> &sig, F process, Frames &out, long expectMax) {
  int dim = fe_get_output_size(fe);
  CepBuf cb((int)expectMax + 4, dim);
  T *blk = exactCopy(sig.data(), sig.size());
  T *p = blk;
  size_t ns = sig.size();
  fe_start(fe);
  int guard = 0;
  while (ns > 0 && guard++ < 4) {
    int nfr = process(fe, &p, &ns, cb.buf, cb.n);
    if (nfr < 0) {
      free(blk);
      return "fe_process returned " + std::to_string(nfr);
    }
    take(out, cb.buf, nfr, dim);
  }
  if (ns != 0) {
    free(blk);
    return "single call left " + std::to_string(ns) + " samples unconsumed";
  }
  if (p != blk + sig.size()) {
    free(blk);
    return "single call advanced the pointer by " + std::to_string(p - blk) + " of " + std::to_string(sig.size());
  }
  int nfr = fe_end(fe, cb.buf, cb.n);
  take(out, cb.buf, nfr, dim);
  free(blk);
  return "";
}

bool sameFrames(const Frames &a, const Frames &b, std::string &why) {
  if (a.size() != b.size()) {
    why = "frame count " + std::to_string(a.size()) + " vs " + std::to_string(b.size());
    return false;
  }
  for (size_t i = 0; i < a.size(); ++i)
    if (memcmp(a[i].data(), b[i].data(), a[i].size() * sizeof(mfcc_t)) != 0) {
      size_t k = 0;
      while (k < a[i].size() && memcmp(&a[i][k], &b[i][k], sizeof(mfcc_t)) == 0) ++k;
      std::ostringstream o;
      o.precision(9);
      o << "frame " << i << " of " << a.size() << " differs at coefficient " << k << ": " << a[i][k] << " vs " << b[i][k];
      why = o.str();
      return false;
    }
  return true;
}

Verdict propFe(Choices &c, Ctx &ctx) {
  FeCfg k;
  // --- configuration ---
  static const int rates[] = {16000, 8000, 11025, 22050, 44100, 32000, 48000};
  k.samprate = rates[c.weighted({8, 3, 2, 2, 2, 1, 1})];
  static const int frates[] = {100, 50, 125, 200};
  k.frate = frates[c.weighted({6, 2, 2, 2})];
  static const double wlens[] = {0.025625, 0.02, 0.025, 0.032, 0.016, 0.01};
  k.wlen = wlens[c.weighted({5, 2, 2, 2, 2, 1})];
  long shift = (long)((float)k.samprate / (float)k.frate + 0.5);
  long size = (long)((float)k.wlen * (float)k.samprate + 0.5);
  if (size < shift) {
    k.wlen = 1.0 / k.frate; // window == shift (the boundary the closed form singles out)
    size = (long)((float)k.wlen * (float)k.samprate + 0.5);
    if (size < shift) k.wlen = 1.5 / k.frate, size = (long)((float)k.wlen * (float)k.samprate + 0.5);
  }
  {
    int n = 1;
    while (n < size) n <<= 1;
    bool expl = c.coin(25);
    if (expl && c.coin(50)) n <<= 1;
    // the mel filterbank needs enough FFT bins per filter (fe_build_melfilters
    // exits on a bank it cannot build): keep at least 512 points whenever the
    // automatic size would be smaller
    if (n < 512) n = 512, expl = true;
    if (expl) k.nfft = n;
  }
  static const char *tr[] = {"legacy", "dct", "htk"};
  k.transform = tr[c.weighted({3, 2, 1})];
  k.lifter = c.coin(25) ? 22 : 0;
  k.remove_noise = c.coin(35);
  k.remove_dc = c.coin(25);
  k.logspec = c.coin(10);
  k.smoothspec = !k.logspec && c.coin(8);
  if (k.samprate < 16000) {
    k.upperf = k.samprate == 8000 ? 3500 : 5000;
    k.lowerf = 200;
    k.nfilt = (int)c.range(20, 31);
  } else if (c.coin(25)) {
    k.nfilt = (int)c.range(20, 40);
    k.upperf = c.coin(50) ? 6855.4976 : 7500;
  }
  static const double alphas[] = {0.97, 0.0, 0.5};
  k.alpha = alphas[c.weighted({4, 1, 1})];
  k.bigendian = c.coin(6);
  k.doublebw = c.coin(8);
  k.unit_area = !c.coin(10);
  k.round_filters = !c.coin(10);

  // --- signal length ---
  long N;
  size_t lk = c.weighted({1, 1, 10, 8, 3, 1});
  switch (lk) {
  case 0: N = 0; break;
  case 1: N = 1; break;
  case 2: { // structural boundaries
    long base = c.range(0, 6) * shift;
    static const int sel[] = {0, 1, 2, 3, 4, 5, 6, 7};
    long opts[] = {shift - 1, shift, size - 1, size, size + 1, size + shift - 1, size + shift, size + shift + 1};
    N = base + opts[sel[c.range(0, 7)]];
    break;
  }
  case 3: N = c.range(1, 20 * shift + size); break;
  case 4: N = c.range(128 * shift, 400 * shift); break; // beyond the 128-frame ring used by acmod
  default: N = 32767 + size + c.range(1, 40000); break; // a call may leave > 32767 samples
  }
  if (N < 0) N = 0;
  std::string sdesc;
  std::vector<int16_t> sig = audio::recipe(c, (size_t)N, sdesc);
  if (k.bigendian)
    for (auto &s : sig) s = (int16_t)(((uint16_t)s >> 8) | ((uint16_t)s << 8));
  std::vector<float> fsig(sig.size());
  if (!k.bigendian)
    for (size_t i = 0; i < sig.size(); ++i) fsig[i] = (float)sig[i] / 32768.0f;

  // --- chunk plan and output limits (cyclic) ---
  int nplan = (int)c.range(1, 10);
  std::vector<long> plan;
  for (int i = 0; i < nplan; ++i) {
    long len;
    switch (c.weighted({2, 3, 3, 3, 3, 3, 2, 1, 1})) {
    case 0: len = 1; break;
    case 1: len = c.range(1, shift > 1 ? shift - 1 : 1); break;
    case 2: len = c.range(shift, size > shift ? size - 1 : shift); break;
    case 3: len = size + c.range(-1, 1); break;
    case 4: len = c.range(1, 8) * shift + c.range(-1, 1); break;
    case 5: len = c.range(size, 5 * size); break;
    case 6: len = c.range(1000, 9000); break;
    case 7: len = c.range(130 * shift, 200 * shift); break; // chunk longer than acmod's ring
    default: len = 1L << 30; break;                     // "the rest"
    }
    if (len < 1) len = 1;
    plan.push_back(len);
  }
  int nlim = (int)c.range(1, 6);
  std::vector<int> limits;
  for (int i = 0; i < nlim; ++i) {
    static const int L[] = {1000000, 1, 2, 3, 5, 17, 128};
    limits.push_back(L[c.weighted({4, 3, 2, 2, 2, 1, 2})]);
  }
  bool chunkFloat = !k.bigendian && c.coin(40);

  std::ostringstream d;
  d << k.str() << " | N=" << N << " " << sdesc << " | enc=" << (chunkFloat ? "float32" : "int16") << " plan=[";
  for (size_t i = 0; i < plan.size(); ++i) d << (i ? "," : "") << (plan[i] >= (1L << 30) ? std::string("rest") : std::to_string(plan[i]));
  d << "] limits=[";
  for (size_t i = 0; i < limits.size(); ++i) d << (i ? "," : "") << limits[i];
  d << "]";
  ctx.desc = d.str();

  fe_t *fe = makeFe(k);
  if (!fe) {
    // the generator only draws configurations the initialiser documents as valid
    return Verdict::fail("fe-init-refused", Msg() << "fe_init refused " << k.str());
  }
  int fshift = 0, fsize = 0;
  fe_get_input_size(fe, &fshift, &fsize);
  PBT_CHECK(fshift == shift && fsize == size, "harness-geometry", "harness computed shift/size " << shift << "/" << size << " library " << fshift << "/" << fsize);
  int dim = fe_get_output_size(fe);
  long want = frameFormula(N, size, shift);

  // --- A: reference = one int16 call, unlimited output ---
  Frames ref;
  {
    std::string e = singleCall<int16>(fe, sig, fe_process_int16, ref, want);
    if (!e.empty()) {
      fe_free(fe);
      return Verdict::fail("single-call", e);
    }
  }
  Verdict res;
  if ((long)ref.size() != want)
    res = Verdict::fail("frame-count-formula", Msg() << "single call produced " << ref.size() << " frames for N=" << N << " size=" << size << " shift=" << shift << "; closed form says " << want);

  // query mode on a fresh state
  if (res.ok) {
    fe_start(fe);
    int16 *p = sig.data();
    size_t ns = sig.size();
    int q = fe_process_int16(fe, &p, &ns, NULL, 0);
    if (q < (long)ref.size() || q > (long)ref.size() + 1)
      res = Verdict::fail("query-count", Msg() << "query mode returned " << q << " for " << ref.size() << " frames");
    else if (ns != sig.size() || p != sig.data())
      res = Verdict::fail("query-count", "query mode consumed input");
  }

  // --- B: chunked run with output limits ---
  bool sawPartialLeft = false;
  int calls = 0;
  Frames got;
  if (res.ok) {
    fe_start(fe);
    CepBuf cb(130, dim);
    size_t pos = 0, pi = 0, li = 0;
    bool bad = false;
    while (pos < (size_t)N && !bad) {
      long len = plan[pi++ % plan.size()];
      if ((size_t)len > (size_t)N - pos) len = (long)((size_t)N - pos);
      ctx.labelIf(len == 1, "chunk:single-sample");
      ctx.labelIf(len > 128 * shift, "chunk>128-frames");
      size_t ns = (size_t)len;
      int16 *blk16 = nullptr, *p16 = nullptr;
      float *blkf = nullptr, *pf = nullptr;
      if (chunkFloat) blkf = pf = exactCopy(fsig.data() + pos, ns);
      else blk16 = p16 = exactCopy(sig.data() + pos, ns);
      int spins = 0;
      while (ns > 0) {
        int lim = limits[li++ % limits.size()];
        if (lim > cb.n) lim = cb.n;
        int ovBefore = fe->num_overflow_samps;
        size_t before = ns;
        ctx.labelIf(ns > 32767, "call:nsamps>32767");
        int nfr = chunkFloat ? fe_process_float32(fe, &pf, &ns, cb.buf, lim)
                             : fe_process_int16(fe, &p16, &ns, cb.buf, lim);
        ++calls;
        if (nfr < 0 || nfr > lim) {
          res = Verdict::fail("process-return", Msg() << "fe_process returned " << nfr << " with limit " << lim);
          bad = true;
          break;
        }
        take(got, cb.buf, nfr, dim);
        if (nfr == 0 && ovBefore + (long)before < size) ctx.label("path:overflow_append");
        if (nfr > 0 && ovBefore > 0) ctx.label("path:read_overflow_frame");
        if (nfr > 0 && ovBefore > 0 && ovBefore - (long)nfr * shift > 0) ctx.label("path:append_overflow_frame");
        if (nfr > 0 && (ovBefore == 0 || ovBefore - (long)nfr * shift <= 0)) ctx.label("path:create_overflow_frame");
        if (ns > 0) {
          ctx.label("call:output-limited");
          ctx.labelIf(ns > 32767, "call:left>32767");
        }
        if (fe->num_overflow_samps > 0 && fe->num_overflow_samps < size) sawPartialLeft = true;
        if (ns == before && nfr == 0 && ++spins > 3) {
          res = Verdict::fail("no-progress", Msg() << "fe_process made no progress with " << ns << " samples and limit " << lim);
          bad = true;
          break;
        }
      }
      if (!bad) {
        long adv = chunkFloat ? (long)(pf - blkf) : (long)(p16 - blk16);
        if (adv != len) {
          res = Verdict::fail("sample-accounting", Msg() << "chunk of " << len << " samples: pointer advanced by " << adv);
          bad = true;
        }
      }
      free(blk16);
      free(blkf);
      pos += (size_t)len;
    }
    if (!bad) {
      int nfr = fe_end(fe, cb.buf, cb.n);
      take(got, cb.buf, nfr, dim);
      std::string why;
      if (!sameFrames(ref, got, why))
        res = Verdict::fail(got.size() != ref.size() ? "chunking-changes-frame-count" : "chunking-changes-frames", Msg() << "chunked vs single call: " << why);
    }
  }

  // --- C: the other encoding in one call ---
  if (res.ok && !k.bigendian) {
    Frames f32;
    std::string e = singleCall<float>(fe, fsig, fe_process_float32, f32, want);
    std::string why;
    if (!e.empty()) res = Verdict::fail("single-call", "float32: " + e);
    else if (!sameFrames(ref, f32, why))
      res = Verdict::fail("int16-vs-float32", Msg() << "float32 vs int16: " << why);
  }

  bool finiteOut = true;
  for (auto &f : ref)
    for (auto x : f)
      if (!std::isfinite(x)) finiteOut = false;
  ctx.labelIf(!finiteOut, "output:non-finite(see C18)");
  // --- D: locality (each frame depends only on its own samples + 1 prior) ---
  if (res.ok && !k.remove_noise && ref.size() >= 1) {
    long F = N >= size ? (N - size) / shift + 1 : 0; // full frames
    for (int t = 0; t < 5 && res.ok; ++t) {
      long j = c.range(0, (long)ref.size() - 1);
      long a, b; // slice [a,b)
      size_t idx;
      if (j == 0) a = 0, b = std::min<long>(N, size), idx = 0;
      else if (j < F) a = (j - 1) * shift, b = j * shift + size, idx = 1;
      else a = (F - 1) * shift, b = N, idx = 1; // flushed frame
      if (j >= F && F == 0) a = 0, b = N, idx = 0;
      std::vector<int16_t> slice(sig.begin() + a, sig.begin() + b);
      Frames loc;
      std::string e = singleCall<int16>(fe, slice, fe_process_int16, loc, 4);
      if (!e.empty()) res = Verdict::fail("single-call", "locality slice: " + e);
      else if (loc.size() <= idx)
        res = Verdict::fail("locality", Msg() << "slice [" << a << "," << b << ") gave " << loc.size() << " frames");
      else if (memcmp(loc[idx].data(), ref[j].data(), dim * sizeof(mfcc_t)) != 0)
        res = Verdict::fail("locality", Msg() << "frame " << j << " of " << ref.size() << " differs from a fresh run over its own samples [" << a << "," << b << ")");
    }
    ctx.label("oracle:locality");
    // dependence set of a full frame j >= 1: samples [j*shift-1, j*shift+size).
    // Perturbing the sample just outside either end must leave the frame
    // bit-identical; perturbing the pre-emphasis prior (j*shift-1) must not.
    if (res.ok && F >= 2) {
      long j = c.range(1, F - 1);
      struct Probe { long at; bool mustChange; const char *what; };
      bool sensitive = false; // does the output react to a sample inside the window at all?
      Probe probes[] = {{j * shift, true, "SENSITIVITY"},
                        {j * shift - 2, false, "two samples before the window"},
                        {j * shift + size, false, "the sample after the window"},
                        {j * shift - 1, true, "the pre-emphasis prior"}};
      for (auto &pr : probes) {
        if (!res.ok || pr.at < 0 || pr.at >= N) continue;
        if (pr.mustChange && (k.alpha < 0.5 || !finiteOut)) continue; // NaN frames (judged by C18) compare equal
        long a = (j - 1) * shift, b = std::min<long>(N, j * shift + size + 1);
        if (pr.at < a) a = pr.at;
        std::vector<int16_t> slice(sig.begin() + a, sig.begin() + b);
        int16_t &x = slice[pr.at - a];
        int16_t nat = k.bigendian ? (int16_t)(((uint16_t)x >> 8) | ((uint16_t)x << 8)) : x;
        nat = (int16_t)(nat >= 0 ? nat - 20000 : nat + 20000);
        x = k.bigendian ? (int16_t)(((uint16_t)nat >> 8) | ((uint16_t)nat << 8)) : nat;
        Frames loc;
        std::string e = singleCall<int16>(fe, slice, fe_process_int16, loc, 6);
        size_t idx = (size_t)((j * shift - a) / shift);
        if ((j * shift - a) % shift != 0) { // slice start moved by the probe: realign
          std::vector<int16_t> s2(slice.begin() + ((j * shift - a) % shift), slice.end());
          loc.clear();
          e = singleCall<int16>(fe, s2, fe_process_int16, loc, 6);
          idx = (size_t)((j * shift - a) / shift);
        }
        if (!e.empty()) res = Verdict::fail("single-call", "dependence probe: " + e);
        else if (loc.size() <= idx) res = Verdict::fail("locality", "dependence probe produced too few frames");
        else {
          bool same = memcmp(loc[idx].data(), ref[j].data(), dim * sizeof(mfcc_t)) == 0;
          if (!strcmp(pr.what, "SENSITIVITY")) {
            sensitive = !same;
            ctx.labelIf(same, "output:insensitive-to-input");
            continue;
          }
          if (pr.mustChange && !sensitive) continue;
          if (pr.mustChange && same)
            res = Verdict::fail("frame-ignores-prior-sample", Msg() << "frame " << j << " is unchanged when " << pr.what << " (index " << pr.at << ") changes by 20000");
          if (!pr.mustChange && !same)
            res = Verdict::fail("frame-depends-on-foreign-sample", Msg() << "frame " << j << " changes when " << pr.what << " (index " << pr.at << ") changes");
        }
      }
      ctx.label("oracle:dependence-set");
    }
  }

  fe_free(fe);
  ctx.labelIf(N == 0, "len:0");
  ctx.labelIf(N > 0 && N < size, "len:<window");
  ctx.labelIf(want > 128, "len:>128-frames");
  ctx.labelIf(k.remove_noise, "cfg:remove_noise");
  ctx.labelIf(k.bigendian, "cfg:big-endian");
  ctx.labelIf(size == shift, "cfg:window==shift");
  ctx.labelIf(chunkFloat, "enc:float32-chunks");
  ctx.label(std::string("sr:") + std::to_string(k.samprate));
  ctx.nontrivial = ref.size() >= 3 && calls >= 2 && sawPartialLeft;
  return res;
}

void initFe() { err_set_loglevel(ERR_FATAL); }

} // namespace

namespace pbt {
const PropDef kProps[] = {
    {"C06", propFe, false, 30000, initFe},
    {nullptr, nullptr, false, 0, nullptr},
};
}
