// C09 — no sequence of API calls corrupts memory, aborts, or leaks.
// Generated histories in a small op language, interpreted against one or two
// decoders created inside the forked child; the interpreter tracks object
// liveness so that the harness itself never uses a dead object.  Oracle: the
// child ends normally (no sanitizer report / assertion / exit), return values
// match the documentation where it fixes them, the decoder stays usable, and
// after every object has been released LeakSanitizer finds nothing allocated
// during the history.
#include "common/decode.h"
#include "common/latalg.h"

extern "C" {
#include <soundswallower/alignment.h>
#include <soundswallower/ckd_alloc.h>
void __lsan_do_leak_check(void);
int __lsan_do_recoverable_leak_check(void);
}

#include <cstring>

using namespace pbt;
using namespace dec;

namespace {

struct Dec {
  decoder_t *d = nullptr;
  enum { IDLE, STARTED, ENDED } utt = IDLE;
  bool hasGrammar = false;
  long framesThisUtt = 0;
  int procCalls = 0;     // process calls in the current utterance
  bool fullDone = false; // a full_utt block was given: the utterance's audio is complete
  std::vector<lattice_t *> retainedLattices;
  std::vector<seg_iter_t *> openSegs;
  std::vector<hyp_iter_t *> openNbest;
  std::vector<alignment_iter_t *> openAlignIters;
  int extraRefs = 0;
  std::vector<alignment_t *> retainedAlignments;
  bool cfgGrammar = false; // the configuration itself names a grammar: every reinitialisation loads it again
  bool hostile = false; // dictionary with hostile spellings loaded
  bool weakAcoustics = false; // the derived semi-continuous layout: structurally valid, acoustically meaningless
  bool french = false; // reinitialised with the French model: the English grammar / word menus do not apply
  bool broken = false; // a reinit failed: only another reinit or free is meaningful
};

const char *JSGFS[] = {
    "#JSGF V1.0; grammar g; public <s> = go forward ten meters;",
    "#JSGF V1.0; grammar g; public <s> = (go | stop) [forward] (ten | two)* meters;",
    "#JSGF V1.0; grammar g; public <s> = [go];",
    "#JSGF V1.0; grammar g; public <s> = go <undefined>;", // must be refused
    "#JSGF V1.0; grammar g; <s> = go;",                     // no public rule: refused
    "this is not a grammar",                                // refused
    "",                                                     // refused
    "#JSGF V1.0; grammar g; public <s> = zzzunknownword;",  // word not in dictionary: refused
};
const bool JSGF_OK[] = {true, true, true, false, false, false, false, false};
const char *FSGS[] = {
    "FSG_BEGIN a\nNUM_STATES 3\nSTART_STATE 0\nFINAL_STATE 2\nT 0 1 1.0 go\nT 1 2 0.5 forward\nT 1 2 0.5\nFSG_END\n",
    "FSG_BEGIN b\nNUM_STATES 1\nSTART_STATE 0\nFINAL_STATE 0\nT 0 0 1.0 ten\nFSG_END\n",
    "FSG_BEGIN c\nNUM_STATES 2\nSTART_STATE 0\nFINAL_STATE 1\nT 0 1 1.0\nFSG_END\n",
    "FSG_BEGIN d\nNUM_STATES 2\nSTART_STATE 0\nFINAL_STATE 1\nT 0 1 1.0 zzzunknownword\nFSG_END\n", // refused at install
};
const char *TEXTS[] = {"go forward ten meters", "go", "", " ", "go zzzunknownword", "ten\tmeters\n", "a a a a a a a a", "go caf\xc3\xa9 ten"};
// 1 = must be accepted, 0 = must be refused, 2 = the documentation does not say (empty word sequence) or it
// depends on the history (words that an earlier call may have added)
const int TEXT_OK[] = {1, 1, 2, 2, 0, 1, 1, 2};

Verdict fail(const std::string &key, const std::string &what, const std::string &hist) { return Verdict::fail(key, what + "\nhistory:" + hist); }


// ---- configuration objects (the quantifier names config_* calls) ----
struct KeyInfo {
  const char *name;
  char type; // s i f b, or 0 for a key that does not exist
};
const KeyInfo KEYS[] = {{"hmm", 's'}, {"dict", 's'}, {"cmn", 's'}, {"samprate", 'i'}, {"frate", 'i'}, {"nfft", 'i'}, {"beam", 'f'}, {"lw", 'f'},
                        {"compallsen", 'b'}, {"remove_noise", 'b'}, {"loglevel", 's'}, {"nosuchkey", 0}, {"", 0}};
const int NKEYS = sizeof(KEYS) / sizeof(KEYS[0]);

// a configuration meant for decoder_init / decoder_reinit; *valid says whether initialisation must succeed
bool gInitHasGrammar = false;
int gInitLayout = 0;
config_t *genInitConfig(Choices &c, std::ostringstream &h, bool *valid, bool *french) {
  config_t *cfg = config_init(NULL);
  *valid = true;
  uint32_t hmRaw = c.raw(); // weights 6,2,1,1 as before; the quotient selects a derived layout of en-us (DESIGN.md 9.9)
  size_t hm = hmRaw % 10 < 6 ? 0 : hmRaw % 10 < 8 ? 1 : hmRaw % 10 == 8 ? 2 : 3;
  int layout = hm == 0 ? (int)((hmRaw / 10) % 8) : 0; // 5: float mixture weights, 6: general scorer, 7: semi-continuous
  std::string hmm = hm == 0 ? audio::repoDir() + "/model/en-us" : hm == 1 ? audio::repoDir() + "/model/fr-fr" : hm == 2 ? "/nonexistent/model" : audio::repoDir() + "/model";
  gInitLayout = layout;
  if (layout == 5 || layout == 6) hmm = derivedModelsDir() + "/mixw";
  if (layout == 7) hmm = derivedModelsDir() + "/semi";
  if (layout == 6) config_set_str(cfg, "senmgau", ".ptm.");
  if (layout >= 5) h << "{layout=" << (layout == 5 ? "float-weights" : layout == 6 ? "general-scorer" : "semi-continuous") << "}";
  if (hm >= 2) *valid = false;
  *french = hm == 1;
  config_set_str(cfg, "hmm", hmm.c_str());
  size_t dm = c.weighted({7, 1, 1});
  std::string dict = dm == 0 ? verifDir() + (hm == 1 ? "/data/mini_fr.dic" : "/data/mini.dic") : dm == 1 ? "/nonexistent/words.dic" : verifDir() + "/data";
  if (dm >= 1) *valid = false;
  config_set_str(cfg, "dict", dict.c_str());
  size_t lm = c.weighted({8, 1});
  config_set_str(cfg, "loglevel", lm == 0 ? "FATAL" : "NOT_A_LEVEL");
  if (lm) *valid = false;
  // a grammar named in the configuration is loaded by the initialisation itself
  size_t gm = c.weighted({6, 1, 1, 1, 1});
  gInitHasGrammar = hm == 0 && (gm == 1 || gm == 2);
  if (hm == 0 && gm) {
    if (gm == 1) config_set_str(cfg, "fsg", (verifDir() + "/data/valid.fsg").c_str());
    if (gm == 2) config_set_str(cfg, "jsgf", (verifDir() + "/data/valid.gram").c_str());
    if (gm == 3) config_set_str(cfg, "fsg", (verifDir() + "/data/unknownword.fsg").c_str()), *valid = false;
    if (gm == 4) config_set_str(cfg, "jsgf", "/nonexistent/grammar.gram"), *valid = false;
    h << "{grammar=" << (gm == 1 ? "fsg" : gm == 2 ? "jsgf" : gm == 3 ? "fsg-with-unknown-word" : "missing-jsgf") << "}";
  }
  if (c.coin(30)) config_set_bool(cfg, "compallsen", 1);
  if (c.coin(20)) config_set_float(cfg, "beam", 1e-30);
  if (c.coin(15)) config_set_str(cfg, "cmn", "batch");
  h << "{hmm=" << (hm == 0 ? "en-us" : hm == 1 ? "fr-fr" : hm == 2 ? "missing" : "not-a-model") << ",dict=" << (dm == 0 ? "mini" : dm == 1 ? "missing" : "directory") << (lm ? ",loglevel=bogus" : "") << "}";
  return cfg;
}

Verdict configOps(Choices &c, Ctx &ctx, std::ostringstream &h, config_t *cfgs[2]) {
  int ci = (int)c.range(0, 1);
  if (!cfgs[ci]) {
    cfgs[ci] = config_init(NULL);
    h << " cfg" << ci << "=new";
  }
  config_t *cfg = cfgs[ci];
  int n = (int)c.range(1, 6);
  for (int i = 0; i < n; ++i) {
    const KeyInfo &k = KEYS[c.range(0, NKEYS - 1)];
    switch (c.weighted({4, 3, 3, 2, 4, 2, 2, 1, 2})) {
    case 0: {
      static const char *V[] = {"", "abc", "16000", "yes", "no", "1e-40", "-7", "3.5", "FATAL", NULL};
      const char *v = V[c.range(0, 9)];
      h << " cfg" << ci << ".set_str(" << k.name << "," << (v ? v : "NULL") << ")";
      ctx.describe(h.str());
      const anytype_t *r = config_set_str(cfg, k.name, v);
      if (!k.type && r) return Verdict::fail("unknown-key-accepted", std::string("config_set_str accepted the unknown key '") + k.name + "'\nhistory:" + h.str());
      if (k.type == 's' && v && *v && !r) return Verdict::fail("valid-setting-refused", std::string("config_set_str refused a non-empty string for string parameter ") + k.name + "\nhistory:" + h.str());
      break;
    }
    case 1: {
      long v = (long[]){0, 1, -1, 16000, 2147483647L, -2147483648L, 1L << 40}[c.range(0, 6)];
      h << " cfg" << ci << ".set_int(" << k.name << "," << v << ")";
      ctx.describe(h.str());
      const anytype_t *r = config_set_int(cfg, k.name, v);
      if (!k.type && r) return Verdict::fail("unknown-key-accepted", std::string("config_set_int accepted the unknown key '") + k.name + "'\nhistory:" + h.str());
      if (k.type && !r) return Verdict::fail("valid-setting-refused", std::string("config_set_int refused a value for ") + k.name + "\nhistory:" + h.str());
      if (k.type == 'i' && config_int(cfg, k.name) != v) return Verdict::fail("setting-not-stored", std::string("config_int does not return the value just set for ") + k.name + "\nhistory:" + h.str());
      break;
    }
    case 2: {
      double v = (double[]){0.0, 1.0, -1.5, 1e-40, 1e9, 0.25}[c.range(0, 5)];
      h << " cfg" << ci << ".set_float(" << k.name << "," << v << ")";
      ctx.describe(h.str());
      const anytype_t *r = config_set_float(cfg, k.name, v);
      if (!k.type && r) return Verdict::fail("unknown-key-accepted", std::string("config_set_float accepted the unknown key '") + k.name + "'\nhistory:" + h.str());
      if (k.type == 'f' && config_float(cfg, k.name) != v) return Verdict::fail("setting-not-stored", std::string("config_float does not return the value just set for ") + k.name + "\nhistory:" + h.str());
      break;
    }
    case 3: {
      int v = (int)c.range(0, 1);
      h << " cfg" << ci << ".set_bool(" << k.name << "," << v << ")";
      ctx.describe(h.str());
      const anytype_t *r = config_set_bool(cfg, k.name, v);
      if (!k.type && r) return Verdict::fail("unknown-key-accepted", std::string("config_set_bool accepted the unknown key '") + k.name + "'\nhistory:" + h.str());
      if (k.type == 'b' && config_bool(cfg, k.name) != v) return Verdict::fail("setting-not-stored", std::string("config_bool does not return the value just set for ") + k.name + "\nhistory:" + h.str());
      break;
    }
    case 4: {
      h << " cfg" << ci << ".get(" << k.name << ")";
      ctx.describe(h.str());
      (void)config_str(cfg, k.name);
      (void)config_int(cfg, k.name);
      (void)config_float(cfg, k.name);
      (void)config_bool(cfg, k.name);
      (void)config_typeof(cfg, k.name);
      (void)config_get(cfg, k.name);
      break;
    }
    case 5: {
      h << " cfg" << ci << ".unset(" << k.name << ")";
      ctx.describe(h.str());
      const anytype_t *r = config_unset(cfg, k.name);
      if (!k.type && r) return Verdict::fail("unknown-key-accepted", std::string("config_unset accepted the unknown key '") + k.name + "'\nhistory:" + h.str());
      break;
    }
    case 6: {
      static const char *J[] = {"{\"samprate\": 8000, \"hmm\": \"x\"}", "samprate: 11025\nbeam: 1e-20", "{", "", "{\"nosuchkey\": 1}", "{\"hmm\": null}", "{\"compallsen\": true, \"lw\": 2}", "[1,2]", "{\"hmm\": \"a\\u00e9\\n\"}"};
      int j = (int)c.range(0, 8);
      h << " cfg" << ci << ".parse_json(" << j << ")";
      ctx.describe(h.str());
      config_t *r = config_parse_json(cfg, J[j]);
      if (r && r != cfg) return Verdict::fail("parse-json-returned-other-object", "config_parse_json(config, ...) returned a different object\nhistory:" + h.str());
      break;
    }
    case 7: {
      h << " cfg" << ci << ".retain/free";
      ctx.describe(h.str());
      config_retain(cfg);
      if (config_free(cfg) != 1) return Verdict::fail("refcount", "config_free did not return the remaining reference count\nhistory:" + h.str());
      break;
    }
    default: {
      h << " cfg" << ci << ".serialize";
      ctx.describe(h.str());
      const char *js = config_serialize_json(cfg);
      if (!js) return Verdict::fail("serialize-failed", "config_serialize_json returned NULL\nhistory:" + h.str());
      // what it prints must be accepted back by its own reader
      config_t *back = config_parse_json(NULL, js);
      if (!back) return Verdict::fail("serialized-config-unreadable", std::string("config_parse_json refuses what config_serialize_json printed: ") + js + "\nhistory:" + h.str());
      config_free(back);
      break;
    }
    }
  }
  if (c.coin(25)) {
    h << " cfg" << ci << ".free";
    config_free(cfg);
    cfgs[ci] = nullptr;
  }
  return Verdict::pass();
}

Verdict propC09(Choices &c, Ctx &ctx) {
  Dec D[2];
  std::ostringstream h;
  int nops = (int)c.range(3, 40);
  bool violating = c.coin(45); // protocol-violating histories allowed?
  const auto &speech = audio::goforward();
  auto ensure = [&](int i) {
    if (!D[i].d) {
      DecCfg k;
      k.compallsen = c.coin(30);
      // the same dictionary plus spellings with quotes, backslashes, control and non-ASCII bytes
      bool hostile = c.coin(40);
      if (hostile) k.dict = verifDir() + "/data/hostile.dic";
      D[i].d = makeDecoder(k);
      D[i].utt = Dec::IDLE;
      D[i].hasGrammar = false;
      D[i].hostile = hostile;
      h << " init" << i << (hostile ? "(hostile-dict)" : "");
      ctx.describe(h.str());
    }
  };
  ensure(0);
  if (!D[0].d) return Verdict::fail("init-failed", "decoder_init failed");
  Verdict res;
  bool sawUtterance = false, sawQuery = false, cmnTouched = false;
  config_t *cfgs[2] = {nullptr, nullptr};
  // where the documentation is silent about a call made mid-utterance, the model follows the decoder
  auto resync = [&](Dec &x) {
    if (x.utt == Dec::STARTED && !(x.d->acmod->state == ACMOD_STARTED || x.d->acmod->state == ACMOD_PROCESSING)) x.utt = Dec::IDLE;
  };
  auto closeIters = [&](Dec &x) {
    for (auto s : x.openSegs) seg_iter_free(s);
    x.openSegs.clear();
    for (auto n : x.openNbest) hyp_iter_free(n);
    x.openNbest.clear();
    for (auto a : x.openAlignIters) alignment_iter_free(a);
    x.openAlignIters.clear();
  };
  for (int op = 0; op < nops && res.ok; ++op) {
    int di = c.coin(15) ? 1 : 0;
    ensure(di);
    Dec &x = D[di];
    decoder_t *d = x.d;
    if (!d) continue;
    size_t kind = c.weighted({4, 3, 4, 3, 8, 10, 7, 5, 5, 4, 4, 4, 4, 2, 3, 2, 2, 2, 1, 2, 3, 2, 2, 2, 1});
    // protocol-following histories steer around calls that are out of order
    if (!violating) {
      if (kind == 4 && (x.utt == Dec::STARTED || !x.hasGrammar)) kind = x.hasGrammar ? 5 : 2;
      if (kind == 5 && x.utt != Dec::STARTED) kind = x.hasGrammar ? 4 : 2;
      if (kind == 6 && x.utt != Dec::STARTED) kind = 7;
      if ((kind <= 3 || kind == 16 || kind == 21 || kind == 24) && x.utt == Dec::STARTED) kind = 5; // grammars / words / reinit between utterances
    }
    ctx.describe(h.str());
    // iterators over results do not survive the calls that replace the result
    if (kind <= 6 || kind == 16 || kind == 21 || kind == 24) closeIters(x);
    if (x.french && (kind <= 3 || kind == 24)) kind = 7; // the grammar / word menus are English
    // after a failed reinit only another reinit or freeing the decoder means anything
    if (x.broken && kind != 21 && kind != 19 && kind != 20) kind = c.coin(50) ? 21 : 19;
    switch (kind) {
    case 0: {
      int i = (int)c.range(0, 7);
      h << " jsgf" << di << "(" << i << ")";
      ctx.describe(h.str());
      if (x.utt == Dec::STARTED) ctx.label("violation:grammar-mid-utterance");
      int rc = decoder_set_jsgf_string(d, JSGFS[i]);
      if (JSGF_OK[i]) {
        if (rc != 0 && x.utt != Dec::STARTED) res = fail("valid-grammar-refused", Msg() << "decoder_set_jsgf_string(" << i << ") returned " << rc, h.str());
        if (rc == 0) x.hasGrammar = true;
      } else if (rc == 0)
        res = fail("invalid-grammar-accepted", Msg() << "decoder_set_jsgf_string('" << JSGFS[i] << "') returned 0", h.str());
      resync(x);
      break;
    }
    case 1: {
      int i = (int)c.range(0, 3);
      h << " fsg" << di << "(" << i << ")";
      ctx.describe(h.str());
      s3file_t *s3 = s3file_init(FSGS[i], strlen(FSGS[i]));
      fsg_model_t *fsg = fsg_model_read_s3file(s3, decoder_logmath(d), 6.5f);
      s3file_free(s3);
      if (!fsg) {
        res = fail("valid-grammar-refused", Msg() << "fsg " << i << " did not parse", h.str());
        break;
      }
      int rc = decoder_set_fsg(d, fsg);
      // decoder_set_fsg consumes the grammar whether or not it succeeds
      bool mid = x.utt == Dec::STARTED;
      if (i <= 2) {
        if (rc != 0 && !mid) res = fail("valid-grammar-refused", Msg() << "decoder_set_fsg(" << i << ") returned " << rc, h.str());
        if (rc == 0) x.hasGrammar = true;
        resync(x);
      } else if (rc == 0)
        res = fail("invalid-grammar-accepted", "decoder_set_fsg accepted a grammar with an unknown word", h.str());
      break;
    }
    case 2: {
      int i = (int)c.range(0, 7);
      if (x.hostile && c.coin(35)) i = 7;
      h << " align" << di << "(" << i << ")";
      ctx.describe(h.str());
      int rc = decoder_set_align_text(d, TEXTS[i]);
      if (rc == 0) x.hasGrammar = true;
      if (TEXT_OK[i] == 1) {
        if (rc != 0 && x.utt != Dec::STARTED) res = fail("valid-text-refused", Msg() << "decoder_set_align_text('" << TEXTS[i] << "') returned " << rc, h.str());
      } else if (TEXT_OK[i] == 0 && rc == 0)
        res = fail("invalid-text-accepted", Msg() << "decoder_set_align_text('" << TEXTS[i] << "') returned 0", h.str());
      resync(x);
      break;
    }
    case 3: {
      static const char *W[] = {"neword", "go(2)", "", "go", "x(2)", "w\"q", "m\xc3\xa8tres"};
      static const char *P[] = {"N UW W ER D", "G OW", "", "QQ", "K", "T  AH\tB"};
      int wi = (int)c.range(0, 6), pi = (int)c.range(0, 5);
      int upd = (int)c.range(0, 1);
      h << " add" << di << "('" << W[wi] << "','" << P[pi] << "'," << upd << ")";
      ctx.describe(h.str());
      bool wordOk = wi == 0 || wi == 1 || wi >= 5;
      bool pronOk = pi == 0 || pi == 1 || pi == 4 || pi == 5;
      bool dup = dict_wordid(d->dict, W[wi]) != BAD_S3WID;
      int rc = decoder_add_word(d, W[wi], P[pi], upd);
      if (wordOk && pronOk && !dup) {
        if (rc < 0 && !(upd && x.utt == Dec::STARTED)) res = fail("valid-addition-refused", Msg() << "decoder_add_word returned " << rc, h.str());
      } else if (rc >= 0)
        res = fail("invalid-addition-accepted", Msg() << "decoder_add_word('" << W[wi] << "','" << P[pi] << "') returned " << rc, h.str());
      break;
    }
    case 4: {
      h << " start" << di;
      ctx.describe(h.str());
      int rc = decoder_start_utt(d);
      if (x.utt == Dec::STARTED) {
        ctx.label("violation:start-twice");
        if (rc >= 0) res = fail("start-twice-accepted", Msg() << "second decoder_start_utt returned " << rc, h.str());
      } else if (!x.hasGrammar) {
        ctx.label("violation:start-without-grammar");
        if (rc >= 0) res = fail("start-without-grammar-accepted", Msg() << "decoder_start_utt without grammar returned " << rc, h.str());
      } else {
        if (rc != 0) res = fail("start-utt-failed", Msg() << "decoder_start_utt returned " << rc, h.str());
        x.utt = Dec::STARTED;
        x.framesThisUtt = 0;
        x.procCalls = 0;
        x.fullDone = false;
      }
      break;
    }
    case 5: {
      size_t len;
      switch (c.weighted({2, 3, 4, 3, 1})) {
      case 0: len = 0; break;
      case 1: len = (size_t)c.range(1, 500); break;
      case 2: len = (size_t)c.range(500, 8000); break;
      case 3: len = (size_t)c.range(8000, 30000); break;
      default: len = (size_t)c.range(53000, 70000); break; // one call > 3.3 s
      }
      bool flt = c.coin(20), noSearch = c.coin(15), full = c.coin(8);
      // full_utt is documented as "this block is a full utterance worth of data": only as the one block of an utterance
      if (x.utt == Dec::STARTED) {
        if (x.procCalls > 0) full = false;
        if (x.fullDone) len = 0;
      }
      size_t off = (size_t)c.range(0, 30000);
      h << " proc" << di << "(" << len << (flt ? "f" : "") << (noSearch ? ",nosearch" : "") << (full ? ",full" : "") << ")";
      ctx.describe(h.str());
      int rc;
      if (flt) {
        std::vector<float> b(len ? len : 1);
        for (size_t i = 0; i < len; ++i) b[i] = (float)speech[(off + i) % speech.size()] / 32768.0f;
        float *blk = (float *)malloc(len ? len * sizeof(float) : 1);
        memcpy(blk, b.data(), len * sizeof(float));
        rc = decoder_process_float32(d, blk, len, noSearch, full);
        free(blk);
      } else {
        int16_t *blk = (int16_t *)malloc(len ? len * 2 : 1);
        for (size_t i = 0; i < len; ++i) blk[i] = speech[(off + i) % speech.size()];
        rc = decoder_process_int16(d, blk, len, noSearch, full);
        free(blk);
      }
      if (x.utt == Dec::IDLE) {
        ctx.label("violation:audio-before-start");
        if (rc > 0) res = fail("audio-before-start-processed", Msg() << "decoder_process before start_utt returned " << rc << " frames", h.str());
      } else if (x.utt == Dec::ENDED) {
        ctx.label("violation:audio-after-end");
        if (rc > 0) res = fail("audio-after-end-processed", Msg() << "decoder_process after end_utt returned " << rc << " frames", h.str());
      } else {
        if (rc < 0) res = fail("process-error", Msg() << "decoder_process returned " << rc, h.str());
        x.framesThisUtt += rc > 0 ? rc : 0;
        ++x.procCalls;
        if (full && len > 0) x.fullDone = true;
        sawUtterance = sawUtterance || rc > 0;
      }
      break;
    }
    case 6: {
      h << " end" << di;
      ctx.describe(h.str());
      int rc = decoder_end_utt(d);
      if (x.utt != Dec::STARTED) {
        ctx.label("violation:end-without-start");
        if (rc >= 0) res = fail("end-without-start-accepted", Msg() << "decoder_end_utt without a started utterance returned " << rc, h.str());
      } else {
        if (rc < 0) res = fail("end-utt-failed", Msg() << "decoder_end_utt returned " << rc, h.str());
        x.utt = Dec::ENDED;
      }
      break;
    }
    case 7: {
      bool wantScore = c.coin(50);
      h << " hyp" << di << (wantScore ? "" : "(NULL)");
      ctx.describe(h.str());
      int32 sc = 0;
      const char *hy = decoder_hyp(d, wantScore ? &sc : NULL);
      if (!x.hasGrammar && hy) res = fail("hyp-without-grammar", "decoder_hyp returned a string without any grammar", h.str());
      if (x.hasGrammar && x.utt == Dec::IDLE && hy && !sawUtterance) res = fail("hyp-before-audio", Msg() << "decoder_hyp before any audio returned '" << hy << "'", h.str());
      decoder_prob(d);
      sawQuery = true;
      break;
    }
    case 8: {
      int steps = (int)c.range(0, 6);
      bool leaveOpen = c.coin(30);
      h << " seg" << di << "(" << steps << (leaveOpen ? ",open" : "") << ")";
      ctx.describe(h.str());
      seg_iter_t *it = decoder_seg_iter(d);
      for (int i = 0; it && i < steps; ++i) {
        (void)seg_iter_word(it);
        int sf, ef;
        seg_iter_frames(it, c.coin(80) ? &sf : NULL, c.coin(80) ? &ef : NULL);
        int32 a, l;
        seg_iter_prob(it, c.coin(70) ? &a : NULL, c.coin(70) ? &l : NULL);
        it = seg_iter_next(it);
      }
      if (it) {
        if (leaveOpen) x.openSegs.push_back(it);
        else seg_iter_free(it);
      }
      sawQuery = true;
      break;
    }
    case 9: {
      int steps = (int)c.range(0, 5);
      bool withSeg = c.coin(40), leaveOpen = c.coin(25);
      h << " nbest" << di << "(" << steps << (withSeg ? ",seg" : "") << (leaveOpen ? ",open" : "") << ")";
      ctx.describe(h.str());
      if (!x.hasGrammar) {
        (void)decoder_nbest(d);
        break;
      }
      hyp_iter_t *it = decoder_nbest(d);
      for (int i = 0; it && i < steps; ++i) {
        int32 sc;
        (void)hyp_iter_hyp(it, c.coin(70) ? &sc : NULL);
        if (withSeg) {
          seg_iter_t *s = hyp_iter_seg(it);
          int k = (int)c.range(0, 3);
          for (int j = 0; s && j < k; ++j) s = seg_iter_next(s);
          if (s) seg_iter_free(s);
        }
        it = hyp_iter_next(it);
      }
      if (it) {
        if (leaveOpen) x.openNbest.push_back(it);
        else hyp_iter_free(it);
      }
      sawQuery = true;
      break;
    }
    case 10: {
      bool walk = c.coin(60), best = c.coin(50), post = c.coin(40), retain = c.coin(25);
      h << " lattice" << di << "(" << (walk ? "w" : "") << (best ? "b" : "") << (post ? "p" : "") << (retain ? "r" : "") << ")";
      ctx.describe(h.str());
      lattice_t *dag = decoder_lattice(d);
      if (dag) {
        if (walk) (void)lat::read(dag);
        fsg_search_t *fs = (fsg_search_t *)d->search;
        if (best) {
          latlink_t *l = lattice_bestpath(dag, fs->ascale);
          if (l) {
            (void)lattice_hyp(dag, l);
            seg_iter_t *s = lattice_seg_iter(dag, l);
            int k = (int)c.range(0, 4);
            for (int j = 0; s && j < k; ++j) s = seg_iter_next(s);
            if (s) seg_iter_free(s);
            if (post) (void)lattice_posterior(dag, fs->ascale);
          }
        }
        if (retain) x.retainedLattices.push_back(lattice_retain(dag));
      }
      sawQuery = true;
      break;
    }
    case 11: {
      bool walk = c.coin(70), abandon = c.coin(30);
      h << " alignment" << di << "(" << (walk ? "w" : "") << (abandon ? "a" : "") << ")";
      ctx.describe(h.str());
      alignment_t *al = x.hasGrammar ? decoder_alignment(d) : NULL;
      if (al && walk) {
        alignment_iter_t *it = alignment_words(al);
        int k = (int)c.range(0, 4);
        for (int j = 0; it && j < k; ++j) {
          (void)alignment_iter_name(it);
          int st, du;
          alignment_iter_seg(it, c.coin(80) ? &st : NULL, c.coin(80) ? &du : NULL);
          alignment_iter_t *ch = alignment_iter_children(it);
          if (ch) {
            (void)alignment_iter_name(ch);
            alignment_iter_t *st2 = alignment_iter_children(ch);
            if (st2) alignment_iter_free(st2);
            alignment_iter_free(ch);
          }
          it = alignment_iter_next(it);
        }
        if (it) {
          if (abandon) x.openAlignIters.push_back(it);
          else alignment_iter_free(it);
        }
        alignment_iter_t *p = alignment_phones(al);
        if (p) alignment_iter_free(p);
        alignment_iter_t *s = alignment_states(al);
        if (s) alignment_iter_free(s);
      }
      // an alignment iterator belongs to the alignment, which the next alignment call may replace
      closeIters(x);
      sawQuery = true;
      break;
    }
    case 12: {
      int level = (int)c.range(0, 2);
      h << " json" << di << "(" << level << ")";
      ctx.describe(h.str());
      if (x.hasGrammar) (void)decoder_result_json(d, (double)c.range(0, 100) / 7.0, level);
      sawQuery = true;
      break;
    }
    case 13: {
      h << " times" << di;
      ctx.describe(h.str());
      (void)decoder_n_frames(d);
      double a, b, cc;
      decoder_utt_time(d, &a, &b, &cc);
      decoder_all_time(d, &a, &b, &cc);
      break;
    }
    case 14: {
      bool set = c.coin(50);
      h << (set ? " set_cmn" : " get_cmn") << di;
      ctx.describe(h.str());
      cmnTouched = cmnTouched || set;
      if (set) (void)decoder_set_cmn(d, (const char *[]){"40,3,-1", "", "1,2,3,4,5,6,7,8,9,10,11,12,13,14,15", "x,y", "40"}[c.range(0, 4)]);
      else (void)decoder_get_cmn(d, (int)c.range(0, 1));
      break;
    }
    case 15: {
      h << " lookup" << di;
      ctx.describe(h.str());
      char *p = decoder_lookup_word(d, (const char *[]){"go", "zzz", "", "the(2)", "<sil>"}[c.range(0, 4)]);
      ckd_free(p);
      break;
    }
    case 16: {
      bool featOnly = c.coin(40);
      h << (featOnly ? " reinit_feat" : " reinit") << di;
      ctx.describe(h.str());
      if (x.utt == Dec::STARTED) ctx.label("violation:reinit-mid-utterance");
      int rc = featOnly ? decoder_reinit_feat(d, NULL) : decoder_reinit(d, NULL);
      // (the feature computation cannot be replaced under an utterance in progress: refusing then is fine)
      if (rc < 0 && !(featOnly && x.utt == Dec::STARTED)) res = fail("reinit-failed", Msg() << "reinit with the unchanged configuration returned " << rc, h.str());
      if (!featOnly) x.hasGrammar = rc >= 0 && x.cfgGrammar; // a grammar that came from the API, not the configuration, is gone
      resync(x);
      if (x.utt == Dec::ENDED && !featOnly) x.utt = Dec::IDLE;
      break;
    }
    case 17: {
      h << " retain/free" << di;
      ctx.describe(h.str());
      decoder_retain(d);
      if (decoder_free(d) != 1 + x.extraRefs) res = fail("refcount", "decoder_free did not return the remaining reference count", h.str());
      break;
    }
    case 18:
      h << " logfile(NULL)" << di;
      ctx.describe(h.str());
      (void)decoder_set_logfile(d, NULL);
      break;
    case 20: {
      Verdict v = configOps(c, ctx, h, cfgs);
      if (!v.ok) res = v;
      break;
    }
    case 21: {
      // reinitialise this decoder from a new configuration object (which the decoder consumes)
      bool valid, french;
      h << " reinit" << di << "(";
      config_t *cfg = genInitConfig(c, h, &valid, &french);
      h << ")";
      ctx.describe(h.str());
      if (x.utt == Dec::STARTED) ctx.label("violation:reinit-mid-utterance");
      int rc = decoder_reinit(d, cfg); // retained alignments keep their own reference to the dictionary

      if (valid && rc < 0) res = fail("reinit-failed", Msg() << "decoder_reinit with a valid configuration returned " << rc, h.str());
      if (!valid && rc >= 0) res = fail("invalid-configuration-accepted", Msg() << "decoder_reinit with an unusable configuration returned " << rc, h.str());
      ctx.label(valid ? "reinit:new-config" : "reinit:unusable-config");
      x.broken = rc < 0;
      x.hasGrammar = rc >= 0 && gInitHasGrammar;
      x.cfgGrammar = x.hasGrammar;
      x.utt = Dec::IDLE;
      x.french = rc >= 0 && french;
      x.hostile = false;
      if (rc >= 0) x.weakAcoustics = gInitLayout == 7;
      if (rc >= 0 && gInitLayout >= 5) ctx.label("reinit:derived-model-layout");
      break;
    }
    case 22: {
      h << " alignment_retain" << di;
      ctx.describe(h.str());
      alignment_t *al = x.hasGrammar ? decoder_alignment(d) : NULL;
      if (al) x.retainedAlignments.push_back(alignment_retain(al));
      // a retained alignment stays readable while its decoder lives
      for (auto a : x.retainedAlignments) {
        alignment_iter_t *it = alignment_words(a);
        for (; it; it = alignment_iter_next(it)) (void)alignment_iter_name(it);
      }
      break;
    }
    case 23: {
      h << " lattice_walk" << di;
      ctx.describe(h.str());
      lattice_t *dag = decoder_lattice(d);
      if (dag) {
        fsg_search_t *fs = (fsg_search_t *)d->search;
        int n = 0;
        for (latlink_t *l = lattice_traverse_edges(dag, NULL, NULL); l && n < 100000; l = lattice_traverse_next(dag, NULL)) ++n;
        for (latlink_t *l = lattice_reverse_edges(dag, NULL, NULL); l && n < 200000; l = lattice_reverse_next(dag, NULL)) ++n;
        if (lattice_bestpath(dag, fs->ascale)) {
          lattice_posterior(dag, fs->ascale);
          (void)lattice_posterior_prune(dag, (int32)c.range(0, 3) * -2000);
          // the pruned lattice is still a lattice
          (void)lat::read(dag);
          latlink_t *l = lattice_bestpath(dag, fs->ascale);
          if (l) (void)lattice_hyp(dag, l);
        }
      }
      sawQuery = true;
      break;
    }
    case 24: {
      // a valid grammar over dictionary words; a missing file; a file that is not JSGF; a directory; a grammar with words the dictionary lacks
      const std::string F[] = {verifDir() + "/data/valid.gram", "/nonexistent/grammar.gram", verifDir() + "/data/valid.fsg", verifDir() + "/data", audio::repoDir() + "/tests/data/goforward.gram"};
      int i = (int)c.range(0, 4);
      h << " jsgf_file" << di << "(" << i << ")";
      ctx.describe(h.str());
      int rc = decoder_set_jsgf_file(d, F[i].c_str());
      if (i == 0) {
        if (rc != 0 && x.utt != Dec::STARTED) res = fail("valid-grammar-refused", Msg() << "decoder_set_jsgf_file(valid.gram) returned " << rc, h.str());
        if (rc == 0) x.hasGrammar = true;
      } else if (i == 4) {
        if (rc == 0) x.hasGrammar = true; // the bundled grammar: only its first public rule is compiled
      } else if (rc == 0)
        res = fail("invalid-grammar-accepted", Msg() << "decoder_set_jsgf_file(" << F[i] << ") returned 0", h.str());
      resync(x);
      break;
    }
    default: {
      // free the decoder now (possibly mid-utterance) and continue with a fresh one later
      h << " free" << di;
      ctx.describe(h.str());
      if (x.utt == Dec::STARTED) ctx.label("free-mid-utterance");
      closeIters(x);
      for (auto l : x.retainedLattices) lattice_free(l);
      x.retainedLattices.clear();
      for (auto a : x.retainedAlignments) alignment_free(a);
      x.retainedAlignments.clear();
      decoder_free(d);
      x.d = nullptr;
      x.hasGrammar = false;
      x.broken = false;
      x.french = false;
      x.weakAcoustics = false;
      x.cfgGrammar = false;
      x.utt = Dec::IDLE;
      break;
    }
    }
  }
  ctx.describe(h.str());
  // ---- the decoder is still usable: a fixed follow-up utterance ----
  for (int di = 0; di < 2 && res.ok; ++di) {
    Dec &x = D[di];
    if (!x.d || x.broken || x.french) continue;
    closeIters(x);
    if (x.utt == Dec::STARTED) {
      if (decoder_end_utt(x.d) < 0) res = fail("end-utt-failed", "closing the open utterance failed", h.str());
      x.utt = Dec::ENDED;
    }
    if (!res.ok) break;
    if (decoder_set_align_text(x.d, "go forward ten meters") != 0) {
      res = fail("decoder-unusable-after-history", "decoder_set_align_text refused the reference text after the history", h.str());
      break;
    }
    // the running cepstral mean deliberately carries over from earlier audio (one loud frame given as a
    // "full utterance" moves it a long way): put it back to the documented initial value first
    if (decoder_set_cmn(x.d, "40,3,-1") != 0) {
      res = fail("decoder-unusable-after-history", "decoder_set_cmn refused the documented initial value after the history", h.str());
      break;
    }
    std::vector<int16_t> b(speech.begin(), speech.end());
    int r1 = decoder_start_utt(x.d);
    int r2 = decoder_process_int16(x.d, b.data(), 8000, 0, 0);
    int r3 = decoder_process_int16(x.d, b.data() + 8000, b.size() - 8000, 0, 0);
    int r4 = decoder_end_utt(x.d);
    const char *hy = decoder_hyp(x.d, NULL);
    // (with the acoustically meaningless layout only the return codes are judged)
    bool hypOk = x.weakAcoustics || (hy && std::string(hy) == "go forward ten meters");
    if (r1 != 0 || r2 < 0 || r3 < 0 || r4 != 0 || !hypOk)
      res = fail("decoder-unusable-after-history", Msg() << "follow-up utterance: start=" << r1 << " process=" << r2 << "," << r3 << " end=" << r4 << " hyp=" << (hy ? hy : "NULL"), h.str());
  }
  // ---- release everything, then nothing allocated during the history may remain ----
  for (int di = 0; di < 2; ++di) {
    Dec &x = D[di];
    closeIters(x);
    for (auto l : x.retainedLattices) lattice_free(l);
    x.retainedLattices.clear();
    for (auto a : x.retainedAlignments) alignment_free(a);
    x.retainedAlignments.clear();
    if (x.d) decoder_free(x.d);
    x.d = nullptr;
  }
  for (auto &cf : cfgs) {
    if (cf) config_free(cf);
    cf = nullptr;
  }
  if (res.ok) __lsan_do_leak_check(); // ends the child with a report if something leaked
  ctx.labelIf(violating, "generator:protocol-violating");
  ctx.labelIf(!violating, "generator:protocol-following");
  ctx.nontrivial = nops >= 6 && sawUtterance && sawQuery;
  return res;
}

void initApi() {
  err_set_loglevel(ERR_FATAL);
  audio::goforward();
  // one warm-up decoder absorbs one-time lazy initialisation before leak checking starts
  DecCfg k;
  decoder_t *d = makeDecoder(k);
  if (d) decoder_free(d);
}

} // namespace

namespace pbt {
const PropDef kProps[] = {
    {"C09", propC09, true, 60000, initApi, nullptr, true},
    {nullptr, nullptr, false, 0, nullptr},
};
}
