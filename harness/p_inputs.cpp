// C10 — untrusted grammar, dictionary, configuration and text inputs.
// Structured mutation: a valid generated input (JSGF / FSG / dictionary /
// configuration / alignment text / word+pronunciation / cmn string) gets 0-3
// typed mutations (hostile numbers, huge tokens, deep nesting, dropped
// terminators, NUL / high / control bytes, duplicated or swapped lines,
// truncation, byte noise) or is replaced by raw bytes; the library must
// terminate, return an object or an error, and a returned object must survive
// use and free.  Every case runs in a forked child under ASan/UBSan with
// asserts on; exit() from inside the library shows as an abnormal end.
#include "common/decode.h"

extern "C" {
#include <soundswallower/config_defs.h>
#include <soundswallower/dict2pid.h>
#include <soundswallower/fe.h>
#include <soundswallower/feat.h>
#include <soundswallower/jsgf.h>
}

#include <cstring>

using namespace pbt;
using namespace dec;

namespace {

decoder_t *gDec = nullptr;

// -------------------------------------------------------------- mutations
std::string hostileNumber(Choices &c) {
  static const char *N[] = {"0", "-1", "1e9", "1e-320", "nan", "inf", "-inf", "2147483648", "9223372036854775808", "1e400", "0x10", "00000000000000000001", "1.", ".5", "-0", "4294967296", "1e-400", "99999999999999999999999999"};
  return N[c.range(0, 17)];
}

void mutate(Choices &c, std::string &s, std::string &log) {
  size_t kind = c.weighted({4, 3, 2, 3, 4, 3, 3, 3, 2, 2});
  auto pos = [&]() { return s.empty() ? 0 : (size_t)c.range(0, (int64_t)s.size()); };
  switch (kind) {
  case 0: { // replace a number by a hostile one
    std::vector<std::pair<size_t, size_t>> nums;
    for (size_t i = 0; i < s.size();) {
      if (isdigit((unsigned char)s[i])) {
        size_t j = i;
        while (j < s.size() && (isdigit((unsigned char)s[j]) || s[j] == '.' || s[j] == 'e' || s[j] == '-')) ++j;
        nums.push_back({i, j - i});
        i = j;
      } else
        ++i;
    }
    std::string h = hostileNumber(c);
    if (nums.empty()) s.insert(pos(), h);
    else {
      auto n = nums[(size_t)c.range(0, (int64_t)nums.size() - 1)];
      s.replace(n.first, n.second, h);
    }
    log += " number:=" + h;
    break;
  }
  case 1: { // very long token
    size_t len = (size_t)(size_t[]){300, 5000, 100000}[c.range(0, 2)];
    s.insert(pos(), std::string(len, "aZ9<(["[c.range(0, 5)]));
    log += " long-token(" + std::to_string(len) + ")";
    break;
  }
  case 2: { // deep nesting
    size_t depth = (size_t)(size_t[]){50, 1000, 20000}[c.range(0, 2)];
    // listed finding: the null-transition closure needs time cubic in the nesting depth.  Stay below what it
    // can finish except on a small fraction of cases, so that the run goes on behind the finding
    if (depth > 50 && isKnown("timeout:fsg_model_null_trans_closure") && !c.coin(6)) depth = (size_t)c.range(60, 140);
    static const char *O[] = {"(", "[", "{", "<"};
    static const char *C[] = {")", "]", "}", ">"};
    int k = (int)c.range(0, 3);
    std::string open, close;
    for (size_t i = 0; i < depth; ++i) open += O[k], close += C[k];
    size_t p = pos();
    s.insert(p, open + " go " + (c.coin(70) ? close : std::string("")));
    log += " nesting(" + std::string(O[k]) + "x" + std::to_string(depth) + ")";
    break;
  }
  case 3: { // drop a terminator / delimiter
    static const char T[] = {';', '\n', '>', ')', ']', '}', '"', ',', ':', '/'};
    char t = T[c.range(0, 9)];
    std::vector<size_t> at;
    for (size_t i = 0; i < s.size(); ++i)
      if (s[i] == t) at.push_back(i);
    if (!at.empty()) s.erase(at[(size_t)c.range(0, (int64_t)at.size() - 1)], 1);
    log += std::string(" drop('") + (t == '\n' ? std::string("\\n") : std::string(1, t)) + "')";
    break;
  }
  case 4: { // insert special bytes
    static const char *B[] = {"", "\x80", "\xff", "\x01", "\x7f", "\r", "\t", "\xc3", "\xef\xbb\xbf", "\x1b"};
    int k = (int)c.range(0, 9);
    std::string b = k == 0 ? std::string(1, '\0') : std::string(B[k]);
    int n = (int)c.range(1, 4);
    for (int i = 0; i < n; ++i) s.insert(pos(), b);
    log += " insert-byte(0x" + std::to_string((unsigned char)b[0]) + "x" + std::to_string(n) + ")";
    break;
  }
  case 5: { // duplicate a line
    std::vector<std::pair<size_t, size_t>> lines;
    for (size_t i = 0; i < s.size();) {
      size_t j = s.find('\n', i);
      if (j == std::string::npos) j = s.size() - 1;
      lines.push_back({i, j - i + 1});
      i = j + 1;
    }
    if (!lines.empty()) {
      auto l = lines[(size_t)c.range(0, (int64_t)lines.size() - 1)];
      std::string line = s.substr(l.first, l.second);
      s.insert(pos(), line);
    }
    log += " duplicate-line";
    break;
  }
  case 6: { // swap two whitespace-separated fields
    std::vector<std::pair<size_t, size_t>> toks;
    for (size_t i = 0; i < s.size();) {
      while (i < s.size() && isspace((unsigned char)s[i])) ++i;
      size_t j = i;
      while (j < s.size() && !isspace((unsigned char)s[j])) ++j;
      if (j > i) toks.push_back({i, j - i});
      i = j;
    }
    if (toks.size() >= 2) {
      size_t a = (size_t)c.range(0, (int64_t)toks.size() - 2);
      std::string ta = s.substr(toks[a].first, toks[a].second), tb = s.substr(toks[a + 1].first, toks[a + 1].second);
      s.replace(toks[a + 1].first, toks[a + 1].second, ta);
      s.replace(toks[a].first, toks[a].second, tb);
    }
    log += " swap-fields";
    break;
  }
  case 7: // truncate
    if (!s.empty()) s.resize((size_t)c.range(0, (int64_t)s.size() - 1));
    log += " truncate";
    break;
  case 8: { // byte noise
    int n = (int)c.range(1, 8);
    for (int i = 0; i < n && !s.empty(); ++i) s[(size_t)c.range(0, (int64_t)s.size() - 1)] = (char)c.range(0, 255);
    log += " byte-noise(" + std::to_string(n) + ")";
    break;
  }
  default: { // splice a format keyword somewhere
    static const char *K[] = {"#JSGF V1.0;", "public", "<NULL>", "<VOID>", "FSG_BEGIN", "FSG_END", "TRANSITION", "NUM_STATES", "(2)", "/1e-/", "/3/", "\"cmn\"", "grammar", "import <x.y>;", "|", "*", "+", "{", "}}", "\\", "//", "/*", "*/", "START_STATE", "FINAL_STATE", "T"};
    s.insert(pos(), std::string(" ") + K[c.range(0, 25)] + " ");
    log += " splice-keyword";
    break;
  }
  }
}

std::string shown(const std::string &s) {
  std::string o;
  for (unsigned char ch : s.substr(0, 400)) {
    if (ch == '\n') o += "\\n";
    else if (ch < 0x20 || ch >= 0x7f) {
      char b[8];
      snprintf(b, sizeof b, "\\x%02x", ch);
      o += b;
    } else
      o += (char)ch;
  }
  if (s.size() > 400) o += "...(" + std::to_string(s.size()) + " bytes)";
  return o;
}

std::string rawBytes(Choices &c) {
  size_t n = (size_t)c.range(0, 200);
  std::string s;
  for (size_t i = 0; i < n; ++i) s += (char)(c.coin(70) ? c.range(0x20, 0x7e) : c.range(0, 255));
  return s;
}

// exact-size copy WITH terminating NUL (APIs documented to take C strings)
struct CStr {
  char *p;
  explicit CStr(const std::string &s) {
    // an embedded NUL ends the C string: that is what the API sees
    p = (char *)malloc(strlen(s.c_str()) + 1);
    strcpy(p, s.c_str());
  }
  ~CStr() { free(p); }
};
// exact-size copy WITHOUT terminator (memory-buffer APIs)
struct Bytes {
  char *p;
  size_t n;
  explicit Bytes(const std::string &s) : n(s.size()) {
    p = (char *)malloc(n ? n : 1);
    memcpy(p, s.data(), n);
  }
  ~Bytes() { free(p); }
};

void useFsg(fsg_model_t *fsg, Ctx &ctx, Choices &c, bool inDecoder) {
  // iterate, write, transform, (install and decode), free
  for (int s = 0; s < fsg_model_n_state(fsg); ++s)
    for (fsg_arciter_t *it = fsg_model_arcs(fsg, s); it; it = fsg_arciter_next(it)) (void)fsg_arciter_get(it);
  char *buf = NULL;
  size_t len = 0;
  FILE *fp = open_memstream(&buf, &len);
  fsg_model_write(fsg, fp);
  fclose(fp);
  free(buf);
  glist_free(fsg_model_null_trans_closure(fsg, NULL));
  bool known = true;
  for (int w = 0; w < fsg_model_n_word(fsg); ++w)
    if (dict_wordid(gDec->dict, fsg_model_word_str(fsg, w)) == BAD_S3WID) known = false;
  if (inDecoder && known && fsg_model_n_state(fsg) <= 200) {
    ctx.label("post-use:installed-in-decoder");
    if (decoder_set_fsg(gDec, fsg) == 0) { // consumes fsg
      const auto &a = audio::goforward();
      std::vector<int16_t> b(a.begin() + 8000, a.begin() + 8000 + 4800);
      if (decoder_start_utt(gDec) == 0) {
        decoder_process_int16(gDec, b.data(), b.size(), 0, 0);
        decoder_end_utt(gDec);
        decoder_hyp(gDec, NULL);
        decoder_result_json(gDec, 0.0, (int)c.range(0, 2));
      }
      return;
    }
    return; // consumed even on failure
  }
  fsg_model_add_silence(fsg, "<sil>", -1, 0.005f);
  if (fsg_model_n_word(fsg) > 0) fsg_model_add_alt(fsg, fsg_model_word_str(fsg, 0), "alt(2)");
  fsg_model_free(fsg);
}

Verdict propC10(Choices &c, Ctx &ctx) {
  size_t target = c.weighted({5, 5, 4, 5, 4});
  std::string input, log;
  logmath_t *lm = decoder_logmath(gDec);
  // ---- produce the input ----
  int nmut = (int)c.weighted({2, 4, 3, 2});
  bool raw = c.coin(8);
  switch (target) {
  case 0: { // JSGF
    jsgfgen::Grammar jg;
    jg.words = {"go", "forward", "ten", "meters"};
    jsgfgen::Gen gen(c, jg);
    gen.nrules = (int)c.range(1, 3);
    for (int r = 0; r < gen.nrules; ++r) {
      jsgfgen::Rule rule;
      rule.name = "r" + std::to_string(r);
      rule.pub = r == 0;
      rule.body = gen.alt(r, 2);
      jg.rules.push_back(rule);
    }
    jsgfgen::Printer pr(c);
    input = pr.grammar(jg);
    break;
  }
  case 1: { // FSG
    Gram g = genGrammar(c, 0, 1, 0);
    input = g.text;
    break;
  }
  case 2: { // dictionary
    int n = (int)c.range(1, 12);
    static const char *PH[] = {"AA", "B", "K", "S", "T", "IY", "OW", "N", "ER", "SIL", "G"};
    for (int i = 0; i < n; ++i) {
      std::string w = "w" + std::to_string(c.range(0, 5));
      if (c.coin(25)) w += "(" + std::to_string(c.range(2, 3)) + ")";
      input += w;
      int np = (int)c.range(1, 5);
      for (int j = 0; j < np; ++j) input += std::string(c.coin(80) ? " " : "\t") + PH[c.range(0, 10)];
      input += c.coin(90) ? "\n" : "\r\n";
    }
    if (c.coin(15)) input = "## comment line\n" + input;
    break;
  }
  case 3: { // configuration: JSON object or bare key: value form
    static const char *KEYS[] = {"samprate", "frate", "wlen", "nfft", "nfilt", "lowerf", "upperf", "ncep", "lifter", "transform", "remove_noise", "remove_dc", "cmn", "cmninit", "feat", "svspec", "beam", "wbeam", "pbeam", "lw", "wip", "pip", "silprob", "fillprob", "loglevel", "hmm", "dict", "warp_type", "warp_params", "alpha", "dither", "seed", "logbase", "topn", "ds", "input_endian", "agc", "varnorm", "ceplen", "maxhmmpf", "bestpath", "compallsen"};
    static const char *VALS[] = {"16000", "100", "0.025625", "512", "40", "130", "6800", "13", "22", "\"dct\"", "true", "false", "\"live\"", "\"40,3,-1\"", "\"1s_c_d_dd\"", "\"0-12/13-25/26-38\"", "1e-48", "7e-29", "6.5", "0.65", "\"INFO\"", "\"/nonexistent\"", "\"inverse_linear\"", "\"1.0\"", "0.97", "-1", "1.0001", "4", "1", "\"little\"", "\"none\"", "\"batch\"", "\"x\"", "null", "yes", "no"};
    bool json = c.coin(65);
    int n = (int)c.range(0, 6);
    if (json) input = "{";
    for (int i = 0; i < n; ++i) {
      if (i) input += json ? ", " : (c.coin(50) ? ", " : "\n");
      std::string key = KEYS[c.range(0, 41)];
      input += json ? "\"" + key + "\": " : key + ": ";
      input += VALS[c.range(0, 35)];
    }
    if (json) input += "}";
    break;
  }
  default: { // free text for align / add_word / lookup / set_cmn
    int n = (int)c.range(0, 6);
    for (int i = 0; i < n; ++i) input += (i ? " " : "") + vocab()[(size_t)c.range(0, 10)];
    if (c.coin(30)) input = "40,3,-1,0.5";
    break;
  }
  }
  // sheer size: a valid grammar with up to 130,000 small groups (each one becomes an internal rule, so the
  // rule table, its generated names and the rule numbering are driven far past anything hand-written)
  bool manyRules = target == 0 && !raw && c.coin(4);
  if (manyRules) {
    static const long NS[] = {1000, 30000, 99990, 100001, 100400, 130000};
    long n = NS[c.weighted({2, 2, 2, 3, 3, 1})] + (long)c.range(0, 12);
    input = "#JSGF V1.0; grammar big; public <s> = ";
    const char *grp = (const char *[]){"[go] ", "(go) ", "go* ", "ten+ "}[c.range(0, 3)];
    for (long i = 0; i < n; ++i) input += grp;
    input += ";";
    nmut = 0;
    log = " many-rules(" + std::to_string(n) + " x '" + grp + "')";
    ctx.label("input:many-rules");
  }
  if (raw) {
    input = rawBytes(c);
    log = " raw-bytes";
  } else
    for (int i = 0; i < nmut; ++i) mutate(c, input, log);
  static const char *TN[] = {"jsgf", "fsg", "dict", "config", "text"};
  ctx.describe(std::string(TN[target]) + " mutations:" + (log.empty() ? " none" : log) + " | " + shown(input));
  ctx.label(std::string("target:") + TN[target]);
  ctx.labelIf(log.empty(), "input:unmutated");

  // ---- feed it ----
  bool accepted = false;
  switch (target) {
  case 0: {
    CStr s(input);
    if (manyRules) {
      // parse, count the rules, free: compiling 100,000 optional groups is not what this case is about
      jsgf_t *j = jsgf_parse_string(s.p, NULL);
      if (j) {
        accepted = true;
        long nr = 0;
        for (jsgf_rule_iter_t *it = jsgf_rule_iter(j); it; it = jsgf_rule_iter_next(it)) ++nr;
        ctx.labelIf(nr > 100000, "input:more-than-100000-rules");
        jsgf_grammar_free(j);
      }
      break;
    }
    jsgf_t *j = jsgf_parse_string(s.p, NULL);
    if (j) {
      accepted = true;
      for (jsgf_rule_iter_t *it = jsgf_rule_iter(j); it; it = jsgf_rule_iter_next(it)) {
        jsgf_rule_t *r = jsgf_rule_iter_rule(it);
        fsg_model_t *fsg = jsgf_build_fsg(j, r, lm, 6.5f);
        if (fsg) useFsg(fsg, ctx, c, false);
      }
      jsgf_grammar_free(j);
    }
    fsg_model_t *f2 = jsgf_read_string(s.p, lm, 1.0f);
    if (f2) fsg_model_free(f2);
    // the decoder entry point, then a short decode if it was installed
    if (decoder_set_jsgf_string(gDec, s.p) == 0) {
      ctx.label("post-use:installed-in-decoder");
      const auto &a = audio::goforward();
      std::vector<int16_t> b(a.begin() + 8000, a.begin() + 8000 + 4800);
      if (decoder_start_utt(gDec) == 0) {
        decoder_process_int16(gDec, b.data(), b.size(), 0, 0);
        decoder_end_utt(gDec);
        decoder_hyp(gDec, NULL);
        decoder_result_json(gDec, 0.0, 0);
      }
    }
    break;
  }
  case 1: {
    Bytes b(input);
    s3file_t *s3 = s3file_init(b.p, b.n);
    fsg_model_t *fsg = fsg_model_read_s3file(s3, lm, (float)(double[]){1.0, 6.5, 0.5}[c.range(0, 2)]);
    s3file_free(s3);
    if (fsg) {
      accepted = true;
      useFsg(fsg, ctx, c, true);
    }
    break;
  }
  case 2: {
    Bytes b(input);
    std::string fd = "<s> SIL\n</s> SIL\n<sil> SIL\n";
    if (c.coin(30)) {
      std::string l2;
      mutate(c, fd, l2);
    }
    Bytes fb(fd);
    s3file_t *ds = s3file_init(b.p, b.n), *fs = s3file_init(fb.p, fb.n);
    dict_t *dict = dict_init_s3file(NULL, gDec->acmod->mdef, ds, fs);
    s3file_free(ds);
    s3file_free(fs);
    if (dict) {
      accepted = true;
      dict2pid_t *d2p = dict2pid_build(gDec->acmod->mdef, dict);
      for (int w = 0; w < dict_size(dict); ++w) {
        (void)dict_wordid(dict, dict_wordstr(dict, w));
        for (int a = dict_nextalt(dict, w), g = 0; a != BAD_S3WID && g < 100000; a = dict_nextalt(dict, a), ++g)
          ;
      }
      if (d2p) dict2pid_free(d2p);
      dict_free(dict);
    }
    break;
  }
  case 3: {
    CStr s(input);
    config_t *cfg = config_parse_json(NULL, s.p);
    if (cfg) {
      accepted = true;
      (void)config_int(cfg, "samprate");
      (void)config_float(cfg, "wlen");
      (void)config_str(cfg, "cmn");
      (void)config_bool(cfg, "remove_noise");
      const char *ser = config_serialize_json(cfg);
      if (ser) {
        std::string s1 = ser;
        config_t *c2 = config_parse_json(NULL, s1.c_str());
        PBT_CHECK(c2 != NULL, "config-serialisation-not-reparsable", "config_serialize_json output is refused by config_parse_json: " << shown(s1));
        std::string s2 = config_serialize_json(c2);
        config_free(c2);
        PBT_CHECK(s1 == s2, "config-serialisation-not-stable", "serialise -> parse -> serialise changes the text");
      }
      // use it the way the decoder would: front end and dynamic features
      fe_t *fe = fe_init(cfg);
      if (fe) {
        ctx.label("post-use:fe_init-ok");
        fe_free(fe);
      }
      feat_t *fcb = feat_init(cfg);
      if (fcb) feat_free(fcb);
      config_free(cfg);
    }
    break;
  }
  default: {
    CStr s(input);
    size_t api = c.weighted({4, 3, 2, 3});
    if (api == 0) {
      if (decoder_set_align_text(gDec, s.p) == 0) {
        accepted = true;
        const auto &a = audio::goforward();
        std::vector<int16_t> b(a.begin() + 8000, a.begin() + 8000 + 4800);
        if (decoder_start_utt(gDec) == 0) {
          decoder_process_int16(gDec, b.data(), b.size(), 0, 0);
          decoder_end_utt(gDec);
          decoder_hyp(gDec, NULL);
          decoder_result_json(gDec, 0.0, 1);
        }
      }
      ctx.label("text:align");
    } else if (api == 1) {
      std::string pron = c.coin(50) ? "G OW" : input;
      CStr p(pron);
      std::string word = c.coin(50) ? input : "neword";
      CStr w(word);
      accepted = decoder_add_word(gDec, w.p, p.p, (int)c.range(0, 1)) >= 0;
      ctx.label("text:add_word");
    } else if (api == 2) {
      char *ph = decoder_lookup_word(gDec, s.p);
      accepted = ph != NULL;
      ckd_free(ph);
      ctx.label("text:lookup");
    } else {
      accepted = decoder_set_cmn(gDec, s.p) == 0;
      const char *g = decoder_get_cmn(gDec, 0);
      (void)g;
      ctx.label("text:set_cmn");
    }
    break;
  }
  }
  ctx.label(accepted ? "outcome:accepted" : "outcome:rejected");
  ctx.nontrivial = accepted || input.size() >= 16;
  return Verdict::pass();
}

void initInputs() {
  err_set_loglevel(ERR_FATAL);
  DecCfg k;
  gDec = makeDecoder(k);
  if (!gDec) {
    fprintf(stderr, "decoder_init failed\n");
    exit(2);
  }
  audio::goforward();
}

} // namespace

namespace pbt {
const PropDef kProps[] = {
    {"C10", propC10, true, 20000, initInputs, nullptr, true},
    {nullptr, nullptr, false, 0, nullptr},
};
}
