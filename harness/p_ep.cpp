// C15 — endpointed speech segments are exact excerpts with consistent timestamps.
// The property quantifies over decision sequences, so vad_classify is
// interposed at link time (--wrap) and returns generated decisions.
#include "common/pbt.h"

extern "C" {
#include <soundswallower/endpointer.h>
#include <soundswallower/err.h>
#include <soundswallower/vad.h>
}

#include <cmath>
#include <cstring>
#include <deque>
#include <vector>

using namespace pbt;

namespace {
std::vector<int> gDecisions;
size_t gNext = 0;
} // namespace

extern "C" vad_class_t __wrap_vad_classify(vad_t *vad, const short *frame) {
  (void)vad;
  (void)frame;
  int d = gNext < gDecisions.size() ? gDecisions[gNext] : 0;
  ++gNext;
  return (vad_class_t)d;
}

namespace {

int16_t sampleOf(long serial, int i) {
  uint32_t x = (uint32_t)serial * 2654435761u + (uint32_t)i * 40503u + 12345u;
  x ^= x >> 13;
  return (int16_t)(x & 0xffff);
}

void fillFrame(std::vector<int16_t> &f, long serial) {
  for (size_t i = 0; i < f.size(); ++i) f[i] = sampleOf(serial, (int)i);
}

bool frameIs(const int16_t *p, long serial, int n) {
  for (int i = 0; i < n; ++i)
    if (p[i] != sampleOf(serial, i)) return false;
  return true;
}

long identify(const int16_t *p, long upTo, int n) {
  for (long s = upTo; s >= 0 && s > upTo - 200; --s)
    if (frameIs(p, s, n)) return s;
  return -1;
}

Verdict propEp(Choices &c, Ctx &ctx) {
  static const int rates[] = {16000, 8000, 32000, 48000, 11025, 44100};
  int sr = rates[c.weighted({5, 2, 1, 1, 1, 1})];
  static const double fls[] = {0.03, 0.01, 0.02};
  double flReq = fls[c.weighted({3, 2, 2})];
  int winFrames = (int)c.range(2, 40);
  // ratio: bias toward values that let speech start before the window fills
  double ratio;
  switch (c.weighted({3, 3, 2, 2})) {
  case 0: ratio = 0.9; break;
  case 1: ratio = (double)c.range(1, 99) / 100.0; break;
  case 2: ratio = (double)c.range(1, winFrames - 1) / winFrames; break; // exactly on a frame count
  default: ratio = (double)c.range(5, 60) / 100.0; break;
  }
  vad_mode_t mode = (vad_mode_t)c.range(0, 3);

  std::ostringstream d;
  d << "sr=" << sr << " frame=" << flReq << "s window=" << winFrames << "fr ratio=" << ratio;

  // decision sequence as runs
  gDecisions.clear();
  gNext = 0;
  int total = (int)c.range(0, 400);
  bool cur = c.coin(40);
  std::string runs;
  while ((int)gDecisions.size() < total) {
    int len;
    switch (c.weighted({3, 3, 2, 1})) {
    case 0: len = (int)c.range(1, 3); break;
    case 1: len = (int)c.range(1, winFrames); break;
    case 2: len = (int)c.range(winFrames, 3 * winFrames); break;
    default: len = (int)c.range(1, 120); break;
    }
    runs += (cur ? "S" : "n") + std::to_string(len) + " ";
    for (int i = 0; i < len && (int)gDecisions.size() < total; ++i) gDecisions.push_back(cur ? 1 : 0);
    cur = !cur;
  }
  int endAt = c.coin(70) ? total : (int)c.range(0, total); // where the stream is ended
  d << " frames=" << total << " end_at=" << endAt << " runs: " << runs;
  ctx.desc = d.str();

  // frame length as the library will see it (window is specified in seconds)
  endpointer_t *probe = endpointer_init(0, 0, mode, sr, flReq);
  PBT_CHECK(probe != NULL, "init-default-refused", "endpointer_init with default window/ratio refused sr=" << sr << " frame=" << flReq);
  double fl = endpointer_frame_length(probe);
  int fsz = endpointer_frame_size(probe);
  endpointer_free(probe);
  double window = winFrames * fl;
  int maxlen = (int)(window / fl + 0.5);
  int startFrames = (int)(ratio * maxlen);
  int endFrames = (int)((1.0 - ratio) * maxlen + 0.5);
  bool expectOk = !(startFrames <= 0 || startFrames >= maxlen || endFrames <= 0 || endFrames >= maxlen);
  endpointer_t *ep = endpointer_init(window, ratio, mode, sr, flReq);
  if (!expectOk) {
    ctx.label("init:refused-as-documented");
    if (ep) {
      endpointer_free(ep);
      return Verdict::fail("init-accepts-impossible", Msg() << "ratio " << ratio << " of " << maxlen << " frames makes start/end thresholds " << startFrames << "/" << endFrames << " impossible but init succeeded");
    }
    return Verdict::pass();
  }
  PBT_CHECK(ep != NULL, "init-refused", "endpointer_init refused window=" << window << " ratio=" << ratio);

  // --- reference model ---
  struct Q {
    long serial;
    int dec;
  };
  std::deque<Q> q;
  bool inSpeech = false;
  double mStart = 0, mEnd = 0;
  long lastReturned = -1, segFirst = -1;
  int segments = 0;
  std::vector<int16_t> frame((size_t)fsz);
  Verdict res;
  bool wrappedPartly = false;
  long lastSegEndSerial = -1000000;

  for (int t = 0; t < endAt && res.ok; ++t) {
    fillFrame(frame, t);
    // exact-size heap copy so that over-reads of the input frame are visible
    int16_t *in = (int16_t *)malloc(frame.size() * 2);
    memcpy(in, frame.data(), frame.size() * 2);
    const int16 *out = endpointer_process(ep, in);
    free(in);
    // model step
    q.push_back({(long)t, gDecisions[t]});
    if ((int)q.size() > maxlen) q.pop_front();
    int count = 0;
    for (auto &e : q) count += e.dec;
    long expectSerial = -1;
    bool ended = false;
    if (inSpeech) {
      if (count < endFrames) {
        expectSerial = q.front().serial;
        q.pop_front();
        inSpeech = false;
        ended = true;
        mEnd = (expectSerial + 1) * fl;
      }
    } else if (count > startFrames) {
      inSpeech = true;
      mStart = q.front().serial * fl;
      segFirst = q.front().serial;
      ++segments;
      ctx.labelIf((int)q.size() < maxlen, "segment-starts-before-window-filled");
      ctx.labelIf(q.front().serial - lastSegEndSerial <= maxlen, "back-to-back-segments");
    }
    if (inSpeech) {
      expectSerial = q.front().serial;
      q.pop_front();
      if ((int)q.size() < maxlen - 1) wrappedPartly = wrappedPartly || t >= maxlen;
    }
    if (ended) lastSegEndSerial = expectSerial;
    // compare
    if (expectSerial < 0) {
      if (out != NULL) {
        long s = identify(out, t, fsz);
        res = Verdict::fail(inSpeech ? "state" : "spurious-frame", Msg() << "frame " << t << ": a frame (serial " << s << ") was returned while the model is out of speech (count=" << count << " start>" << startFrames << ")");
      }
    } else {
      if (out == NULL)
        res = Verdict::fail("missing-frame", Msg() << "frame " << t << ": NULL returned, model expects serial " << expectSerial << " (count=" << count << ", thresholds >" << startFrames << " <" << endFrames << ")");
      else if (!frameIs(out, expectSerial, fsz)) {
        long s = identify(out, t, fsz);
        res = Verdict::fail(s < 0 ? "frame-not-an-excerpt" : (s <= lastReturned ? "frame-repeated" : "frame-out-of-order"), Msg() << "frame " << t << ": returned data is " << (s < 0 ? std::string("not any frame that was pushed") : "serial " + std::to_string(s)) << ", expected serial " << expectSerial);
      } else
        lastReturned = expectSerial;
    }
    if (res.ok && (endpointer_in_speech(ep) != 0) != inSpeech)
      res = Verdict::fail("state", Msg() << "frame " << t << ": in_speech=" << endpointer_in_speech(ep) << " model=" << inSpeech << " (count=" << count << ", thresholds >" << startFrames << " <" << endFrames << ", queue " << q.size() << "/" << maxlen << ")");
    double tol = 1e-9 * (t + 2);
    if (res.ok && segments > 0 && std::fabs(endpointer_speech_start(ep) - mStart) > tol)
      res = Verdict::fail("speech-start-time", Msg() << "frame " << t << ": speech_start=" << endpointer_speech_start(ep) << " model " << mStart << " (first returned serial " << segFirst << ")");
    if (res.ok && ended && std::fabs(endpointer_speech_end(ep) - mEnd) > tol)
      res = Verdict::fail("speech-end-time", Msg() << "frame " << t << ": speech_end=" << endpointer_speech_end(ep) << " model " << mEnd);
  }

  // --- end of stream ---
  if (res.ok) {
    int partial = c.coin(25) ? 0 : (c.coin(20) ? fsz : (int)c.range(0, fsz));
    std::vector<int16_t> pf((size_t)partial);
    for (int i = 0; i < partial; ++i) pf[(size_t)i] = sampleOf(endAt, i);
    int16_t *in = (int16_t *)malloc(partial ? (size_t)partial * 2 : 1);
    if (partial) memcpy(in, pf.data(), (size_t)partial * 2);
    size_t outN = 777;
    const int16 *out = endpointer_end_stream(ep, in, (size_t)partial, &outN);
    free(in);
    if (!inSpeech) {
      ctx.label("end-stream:out-of-speech");
      if (out != NULL || outN != 0) res = Verdict::fail("end-stream-out-of-speech", Msg() << "end_stream out of speech returned " << (const void *)out << " with " << outN << " samples");
    } else {
      // leading run of speech-classified queued frames, + partial iff that is the whole queue
      size_t lead = 0;
      while (lead < q.size() && q[lead].dec) ++lead;
      bool all = lead == q.size();
      size_t want = lead * (size_t)fsz + (all ? (size_t)partial : 0);
      ctx.label(all ? "end-stream:whole-queue+partial" : "end-stream:stops-at-non-speech");
      ctx.labelIf(q.empty(), "end-stream:empty-queue");
      ctx.labelIf((int)q.size() == maxlen - 1, "end-stream:queue-full-but-one");
      if (out == NULL) res = Verdict::fail("end-stream-null", "end_stream in speech returned NULL");
      else if (outN != want) res = Verdict::fail("end-stream-length", Msg() << "end_stream returned " << outN << " samples, model expects " << want << " (" << lead << " of " << q.size() << " queued frames are leading speech, partial " << partial << ")");
      else {
        for (size_t i = 0; i < lead && res.ok; ++i)
          if (!frameIs(out + i * (size_t)fsz, q[i].serial, fsz))
            res = Verdict::fail("end-stream-content", Msg() << "end_stream block " << i << " is not queued frame serial " << q[i].serial);
        if (res.ok && all)
          for (int i = 0; i < partial; ++i)
            if (out[lead * (size_t)fsz + (size_t)i] != pf[(size_t)i]) {
              res = Verdict::fail("end-stream-content", "trailing partial frame is not byte-identical");
              break;
            }
        double wantEnd = all ? endAt * fl + (double)partial / sr : (q[lead ? lead - 1 : 0].serial + (lead ? 1 : 0)) * fl;
        if (lead == 0 && !all) wantEnd = q.front().serial * fl; // nothing returned: segment ends where the queue starts
        double tol = 1e-9 * (endAt + 2);
        if (res.ok && std::fabs(endpointer_speech_end(ep) - wantEnd) > tol)
          res = Verdict::fail("speech-end-time", Msg() << "after end_stream speech_end=" << endpointer_speech_end(ep) << " model " << wantEnd);
      }
      if (res.ok && endpointer_in_speech(ep)) res = Verdict::fail("state", "still in speech after end_stream");
    }
  }
  endpointer_free(ep);
  ctx.labelIf(wrappedPartly, "queue-wrapped-while-partly-filled");
  ctx.labelIf(segments >= 2, "segments>=2");
  ctx.labelIf(segments == 0, "no-segment");
  ctx.nontrivial = segments >= 1 && endAt > maxlen;
  return res;
}

void initEp() { err_set_loglevel(ERR_FATAL); }

} // namespace

namespace pbt {
const PropDef kProps[] = {
    {"C15", propEp, false, 30000, initEp},
    {nullptr, nullptr, false, 0, nullptr},
};
}
