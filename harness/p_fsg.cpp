// C13 — grammar transformations and FSG files preserve the grammar.
#include "common/fsa.h"
#include "common/pbt.h"

extern "C" {
#include <soundswallower/err.h>
#include <soundswallower/fsg_model.h>
#include <soundswallower/logmath.h>
#include <soundswallower/s3file.h>
}

#include <cmath>
#include <cstdio>
#include <cstdlib>
#include <map>
#include <set>
#include <tuple>

using namespace pbt;

namespace {

logmath_t *gLmath = nullptr;

typedef std::tuple<int, int, std::string> Key; // from, to, label ("" = null)
typedef std::map<Key, long> ArcMap;

ArcMap arcMap(const fsa::Fsa &a, bool *dups = nullptr) {
  ArcMap m;
  for (auto &arc : a.arcs) {
    Key k(arc.from, arc.to, arc.label);
    if (m.count(k)) {
      if (dups) *dups = true;
      if (m[k] < arc.logp) m[k] = arc.logp;
    } else
      m[k] = arc.logp;
  }
  return m;
}

std::string showKey(const Key &k) {
  return std::to_string(std::get<0>(k)) + "->" + std::to_string(std::get<1>(k)) + ":" + (std::get<2>(k).empty() ? "(null)" : std::get<2>(k));
}

std::string diffLang(const std::map<std::string, long> &a, const std::map<std::string, long> &b, long tol = 0) {
  for (auto &kv : a) {
    auto it = b.find(kv.first);
    if (it == b.end()) return "sentence '" + kv.first + "' lost";
    if (std::labs(it->second - kv.second) > tol)
      return "sentence '" + kv.first + "' best weight " + std::to_string(kv.second) + " became " + std::to_string(it->second);
  }
  for (auto &kv : b)
    if (!a.count(kv.first)) return "sentence '" + kv.first + "' invented";
  return "";
}

// language with at most ONE null step after each word (what the search does,
// relying on the stored closure)
std::map<std::string, long> languageOneNullStep(const fsa::Fsa &a, int k) {
  // build an automaton in which null arcs are NOT chained: state (s, canNull)
  fsa::Fsa b;
  b.nstate = a.nstate * 2;
  b.start = a.start * 2; // even = may still take a null arc
  // final: either flavour; add an extra state
  int F = b.nstate++;
  b.fin = F;
  for (auto &arc : a.arcs) {
    if (arc.label.empty()) {
      fsa::Arc x = arc;
      x.from = arc.from * 2;
      x.to = arc.to * 2 + 1; // after a null arc no further null arc
      b.arcs.push_back(x);
    } else
      for (int fl = 0; fl < 2; ++fl) {
        fsa::Arc x = arc;
        x.from = arc.from * 2 + fl;
        x.to = arc.to * 2;
        b.arcs.push_back(x);
      }
  }
  for (int fl = 0; fl < 2; ++fl) b.arcs.push_back({a.fin * 2 + fl, F, "", 0});
  // the extra epsilon into F would chain with a null arc; make the enumerator's
  // closure harmless by construction: F has no outgoing arcs and the arcs into F
  // have weight 0, while (s,1) has no other null arcs.
  return fsa::language(b, k);
}

Verdict propFsg(Choices &c, Ctx &ctx) {
  int nstate = (int)c.range(1, 8);
  int start = (int)c.range(0, nstate - 1);
  int fin = c.coin(15) ? start : (int)c.range(0, nstate - 1);
  float lw = (float[]){1.0f, 0.5f, 6.5f, 9.5f}[c.weighted({4, 2, 2, 2})];
  static const char *PLAIN[] = {"a", "b", "c", "d", "e"};
  // spellings that differ only in letter case are different words (the FSG text format and the
  // word table are case-sensitive); a third of the cases draw their vocabulary from such a pool
  static const char *MIXED[] = {"a", "A", "b", "B", "aB"};
  uint32_t nwRaw = c.raw(); // one choice, decoded as before for the word count (replay files stay valid)
  int nw = 1 + (int)(nwRaw % 5);
  bool mixedCase = (nwRaw / 5) % 3 == 2;
  const char **WORDS = mixedCase ? MIXED : PLAIN;
  if (mixedCase && nw < 2) nw = 2;
  // the "dictionary": which words have numbered alternates
  std::map<std::string, std::vector<std::string>> alts;
  if (c.coin(70)) alts["b"] = {"b(2)", "b(3)"};
  if (c.coin(50)) alts["d"] = {"d(2)"};
  if (c.coin(30)) alts["a"] = {"a(2)"};

  struct GenArc {
    int from, to;
    std::string label;
    double p;
    long logp;
  };
  std::vector<GenArc> gen;
  auto genProb = [&]() -> double {
    switch (c.weighted({3, 3, 2, 1})) {
    case 0: return 1.0;
    case 1: return (double)c.range(1, 999) / 1000.0;
    case 2: return std::pow(10.0, -(double)c.range(0, 6000) / 1000.0); // log-uniform in [1e-6, 1]
    default: return 1e-6;
    }
  };
  auto toLog = [&](double p) { return (long)(int32)(logmath_log(gLmath, p) * lw); };
  int nword = (int)c.range(0, 14), nnull = (int)c.range(0, 8);
  for (int i = 0; i < nword; ++i) {
    GenArc a;
    if (!gen.empty() && c.coin(20)) { // duplicate of an earlier arc with another probability
      a = gen[(size_t)c.range(0, (int64_t)gen.size() - 1)];
      if (a.label.empty()) a.label = WORDS[0];
    } else {
      a.from = (int)c.range(0, nstate - 1);
      a.to = c.coin(15) ? a.from : (int)c.range(0, nstate - 1);
      a.label = WORDS[c.range(0, nw - 1)];
    }
    a.p = genProb();
    a.logp = toLog(a.p);
    gen.push_back(a);
  }
  bool chain = c.coin(40); // null chains/cycles: consecutive states
  int chainAt = (int)c.range(0, nstate - 1);
  for (int i = 0; i < nnull; ++i) {
    GenArc a;
    if (chain && nstate > 1) {
      a.from = (chainAt + i) % nstate;
      a.to = (chainAt + i + 1) % nstate;
    } else {
      a.from = (int)c.range(0, nstate - 1);
      a.to = (int)c.range(0, nstate - 1);
    }
    a.label = "";
    a.p = genProb();
    a.logp = toLog(a.p);
    gen.push_back(a);
  }
  // dense null graphs: (nearly) every ordered pair of states already has a direct null arc, each with its own
  // probability, so that the closure has nothing to create and everything to improve
  if (nstate >= 3 && c.coin(18)) {
    ctx.label("dense-null-graph");
    for (int i = 0; i < nstate; ++i)
      for (int j = 0; j < nstate; ++j) {
        if (i == j || c.coin(12)) continue;
        GenArc a;
        a.from = i;
        a.to = j;
        a.label = "";
        a.p = (double)c.range(1, 999) / 1000.0;
        a.logp = toLog(a.p);
        gen.push_back(a);
      }
  }
  std::ostringstream d;
  d << "states=" << nstate << " start=" << start << " final=" << fin << " lw=" << lw << " arcs:";
  for (auto &a : gen) d << " " << a.from << ">" << a.to << ":" << (a.label.empty() ? "-" : a.label) << "/" << a.p;
  d << " alts:";
  for (auto &kv : alts) d << kv.first << "x" << kv.second.size() << " ";
  ctx.desc = d.str();

  // --- reference model of the arc set: duplicates merged to the max, null self-loops dropped ---
  ArcMap model;
  bool hasDup = false;
  for (auto &a : gen) {
    if (a.label.empty() && a.from == a.to) continue;
    Key k(a.from, a.to, a.label);
    if (model.count(k)) {
      hasDup = true;
      if (model[k] < a.logp) model[k] = a.logp;
    } else
      model[k] = a.logp;
  }
  fsa::Fsa ref;
  ref.nstate = nstate;
  ref.start = start;
  ref.fin = fin;
  for (auto &kv : model) ref.arcs.push_back({std::get<0>(kv.first), std::get<1>(kv.first), std::get<2>(kv.first), kv.second});

  // bound k: full sentence space <= 1500 strings, at least nstate+1 when it fits
  int k = 1;
  {
    double total = 1 + nw;
    while (total + std::pow((double)nw, k + 1) <= 1500 && k < 12) total += std::pow((double)nw, ++k);
  }
  auto refLang = fsa::language(ref, k);

  // --- build through the API ---
  fsg_model_t *fsg = fsg_model_init("g", gLmath, lw, nstate);
  fsg->start_state = start;
  fsg->final_state = fin;
  for (auto &a : gen) {
    if (a.label.empty()) fsg_model_null_trans_add(fsg, a.from, a.to, (int32)a.logp);
    else fsg_model_trans_add(fsg, a.from, a.to, (int32)a.logp, fsg_model_word_add(fsg, a.label.c_str()));
  }
  Verdict res;
  auto bail = [&](Verdict v) {
    fsg_model_free(fsg);
    return v;
  };
  // 1. duplicate merging
  {
    bool dups = false;
    ArcMap got = arcMap(fsa::readFsg(fsg), &dups);
    if (dups) return bail(Verdict::fail("duplicate-arc-kept", "the model holds two arcs with the same endpoints and label"));
    if (got != model) {
      for (auto &kv : model)
        if (!got.count(kv.first) || got[kv.first] != kv.second)
          return bail(Verdict::fail("merge", Msg() << "arc " << showKey(kv.first) << " should carry " << kv.second << " (max of duplicates), model has " << (got.count(kv.first) ? std::to_string(got[kv.first]) : "none")));
      return bail(Verdict::fail("merge", "model holds an arc that was never added"));
    }
  }
  // 2. closure
  glist_free(fsg_model_null_trans_closure(fsg, NULL));
  fsa::Fsa closed = fsa::readFsg(fsg);
  {
    std::string e = diffLang(refLang, fsa::language(closed, k));
    if (!e.empty()) return bail(Verdict::fail("closure-changes-language", "null closure: " + e));
    e = diffLang(refLang, languageOneNullStep(closed, k));
    if (!e.empty()) return bail(Verdict::fail("closure-incomplete", "with one null step per word boundary (as the search takes): " + e));
    glist_free(fsg_model_null_trans_closure(fsg, NULL));
    if (arcMap(fsa::readFsg(fsg)) != arcMap(closed)) return bail(Verdict::fail("closure-not-idempotent", "a second closure changed the arcs"));
  }
  // 5. write -> read (on the closed grammar, before fillers/alternates)
  bool tiny = false;
  for (auto &arc : closed.arcs)
    if (logmath_exp(gLmath, (int)(arc.logp / lw)) < 1.5e-6) tiny = true;
  {
    char *buf = NULL;
    size_t len = 0;
    FILE *fp = open_memstream(&buf, &len);
    fsg_model_write(fsg, fp);
    fclose(fp);
    // exact-size copy without terminator: over-reads become ASan reports
    char *exact = (char *)malloc(len ? len : 1);
    memcpy(exact, buf, len);
    s3file_t *s3 = s3file_init(exact, len);
    fsg_model_t *back = fsg_model_read_s3file(s3, gLmath, lw);
    s3file_free(s3);
    std::string text(buf, len);
    free(buf);
    free(exact);
    if (!back) return bail(Verdict::fail(tiny ? "written-file-unreadable:tiny-probability" : "written-file-unreadable", "fsg_model_write output is refused by the reader:\n" + text));
    Verdict v;
    if (fsg_model_n_state(back) != nstate || fsg_model_start_state(back) != start || fsg_model_final_state(back) != fin)
      v = Verdict::fail("roundtrip-header", "states/start/final differ after write+read");
    else {
      ArcMap a0 = arcMap(closed), a1 = arcMap(fsa::readFsg(back));
      for (auto &kv : a0) {
        auto it = a1.find(kv.first);
        if (it == a1.end()) {
          v = Verdict::fail("roundtrip-arc-lost", "arc " + showKey(kv.first) + " missing after write+read");
          break;
        }
        double p0 = logmath_exp(gLmath, (int)kv.second) , p1 = logmath_exp(gLmath, (int)it->second);
        // compare in the probability domain the file carries: exp(l / lw)
        double q0 = std::pow(p0, 1.0 / lw), q1 = std::pow(p1, 1.0 / lw);
        double rel = std::pow(1.0001, 2.0 + 1.0 / lw) - 1.0;
        double tol = (std::get<2>(kv.first).empty() ? 3.0 : 1.0) * (1e-6 + q0 * rel);
        if (std::fabs(q1 - q0) > tol) {
          v = Verdict::fail("roundtrip-probability", Msg() << "arc " << showKey(kv.first) << " probability " << q0 << " read back as " << q1 << " (tolerance " << tol << ")");
          break;
        }
      }
      if (v.ok)
        for (auto &kv : a1)
          if (!a0.count(kv.first)) {
            v = Verdict::fail("roundtrip-arc-invented", "arc " + showKey(kv.first) + " appears after write+read");
            break;
          }
    }
    fsg_model_free(back);
    if (!v.ok) return bail(v);
  }
  // 3. silence / filler self-loops
  bool usesSil = false;
  {
    fsg_model_add_silence(fsg, "<sil>", -1, 0.005f);
    fsg_model_add_silence(fsg, "++noise++", -1, 1e-8f);
    auto eraseFillers = [](fsg_model_t *f, int wid) { return fsg_model_is_filler(f, wid) ? std::string("") : std::string(fsg_model_word_str(f, wid)); };
    fsa::Fsa s = fsa::readFsg(fsg, eraseFillers);
    std::string e = diffLang(refLang, fsa::language(s, k));
    if (!e.empty()) return bail(Verdict::fail("silence-changes-language", "after add_silence, fillers erased: " + e));
    fsa::Fsa raw = fsa::readFsg(fsg);
    for (int st = 0; st < nstate; ++st)
      for (const char *fw : {"<sil>", "++noise++"}) {
        bool found = false;
        for (auto &arc : raw.arcs)
          if (arc.from == st && arc.to == st && arc.label == fw) found = true;
        if (!found) return bail(Verdict::fail("silence-loop-missing", Msg() << "state " << st << " has no " << fw << " self-loop"));
      }
    ArcMap before = arcMap(raw);
    fsg_model_add_silence(fsg, "<sil>", -1, 0.005f);
    fsg_model_add_silence(fsg, "++noise++", -1, 1e-8f);
    bool dups = false;
    ArcMap after = arcMap(fsa::readFsg(fsg), &dups);
    if (dups || after != before) return bail(Verdict::fail("silence-not-idempotent", "adding silence twice changed the arcs"));
    usesSil = true;
  }
  // 4. alternates
  {
    int nAltArcs = 0;
    for (auto &kv : alts) {
      if (fsg_model_word_id(fsg, kv.first.c_str()) < 0) continue;
      for (auto &aw : kv.second) nAltArcs += fsg_model_add_alt(fsg, kv.first.c_str(), aw.c_str());
    }
    auto project = [](fsg_model_t *f, int wid) {
      if (fsg_model_is_filler(f, wid)) return std::string("");
      std::string w = fsg_model_word_str(f, wid);
      size_t p = w.find('(');
      return p == std::string::npos || p == 0 ? w : w.substr(0, p);
    };
    std::string e = diffLang(refLang, fsa::language(fsa::readFsg(fsg, project), k));
    if (!e.empty()) return bail(Verdict::fail("alternates-change-language", "after add_alt, alternates mapped to base words: " + e));
    fsa::Fsa raw = fsa::readFsg(fsg);
    ArcMap all = arcMap(raw);
    for (auto &arc : raw.arcs) {
      size_t p = arc.label.find('(');
      if (p == std::string::npos || p == 0) continue;
      Key base(arc.from, arc.to, arc.label.substr(0, p));
      if (!all.count(base) || all[base] != arc.logp)
        return bail(Verdict::fail("alternate-arc-unparalleled", "alternate arc " + showKey(Key(arc.from, arc.to, arc.label)) + " has no base-word arc with the same endpoints and weight"));
    }
    // every base arc of a word with alternates got its alternates
    for (auto &kv : all) {
      auto it = alts.find(std::get<2>(kv.first));
      if (it == alts.end()) continue;
      for (auto &aw : it->second)
        if (!all.count(Key(std::get<0>(kv.first), std::get<1>(kv.first), aw)))
          return bail(Verdict::fail("alternate-arc-missing", "base arc " + showKey(kv.first) + " has no parallel arc for " + aw));
    }
    ctx.labelIf(nAltArcs > 0, "alternate-arcs-added");
  }
  fsg_model_free(fsg);

  bool nullChain = false, nullCycle = false;
  {
    // a chain = two composable null arcs in the generated input
    for (auto &a : gen)
      for (auto &b : gen)
        if (a.label.empty() && b.label.empty() && a.to == b.from && a.from != a.to && b.from != b.to) {
          nullChain = true;
          if (b.to == a.from) nullCycle = true;
        }
  }
  ctx.labelIf(mixedCase, "vocabulary:case-variants");
  ctx.labelIf(hasDup, "duplicate-arcs");
  ctx.labelIf(nullChain, "null-chain");
  ctx.labelIf(nullCycle, "null-cycle");
  ctx.labelIf(start == fin, "start==final");
  ctx.labelIf(tiny, "probability<1.5e-6");
  ctx.labelIf(lw != 1.0f, "lw!=1");
  ctx.labelIf(refLang.empty(), "empty-language");
  ctx.label("k:" + std::to_string(k));
  (void)usesSil;
  ctx.nontrivial = refLang.size() >= 2 && (nullChain || hasDup);
  return res;
}

void initFsg() {
  err_set_loglevel(ERR_FATAL);
  gLmath = logmath_init(1.0001, 0, 1);
}

} // namespace

namespace pbt {
const PropDef kProps[] = {
    {"C13", propFsg, false, 30000, initFsg},
    {nullptr, nullptr, false, 0, nullptr},
};
}
