// C17 — damaged acoustic-model files are rejected without memory errors.
// Fault enumeration: choice[0] below the enumerated count selects one fault of
// a deterministic list; larger values (generated campaign) decode to a sampled
// truncation length / byte corruption.
#include "common/decode.h"

extern "C" {
#include <soundswallower/bin_mdef.h>
#include <soundswallower/ms_gauden.h>
#include <soundswallower/tmat.h>
}

#include <cstring>
#include <fcntl.h>
#include <sys/stat.h>
#include <unistd.h>

using namespace pbt;
using namespace dec;

namespace {

// 0, 1: the bundled models.  2-4: layouts derived from en-us by tools/gen_models.py (DESIGN.md 9.9) so that the
// loaders the bundled models never reach are enumerated too: "mixw" = PTM with a float mixture-weight file
// (read_mixw), "ms" = the same files served by the general scorer through a senone-to-codebook map file
// (ms_mgau.c, ms_senone.c), "semi" = one codebook + the bundled dump (s2_semi_mgau.c).
const char *MODELS[] = {"en-us", "fr-fr", "mixw", "ms", "semi"};
const int NMODELS = 5;
struct FileSpec {
  const char *cfgkey;
  const char *fname;
  bool binary;
};
const FileSpec FILES[] = {
    {"mdef", "mdef", true},
    {"mean", "means", true},
    {"var", "variances", true},
    {"sendump", "sendump", true},
    {"tmat", "transition_matrices", true},
    {"featparams", "feat_params.json", false},
    {"fdict", "noisedict.txt", false},
    {"lda", "feature_transform", true}, // not bundled with the models: the repository's test file
    {"mixw", "mixture_weights", true},  // derived models only
    {"senmgau", "senmgau.map", true},   // derived model "ms" only; written by initModel from the model definition
};
const int NFILES = 10;

enum Kind { MISSING, EMPTY, TRUNC, FIELD, FLIPBYTE };
enum Delivery { DIR_MMAP, DIR_NOMMAP, LOADER };

struct Fault {
  int model, file;
  Kind kind;
  long arg = 0;  // TRUNC: length; FIELD: byte offset; FLIPBYTE: offset
  int valueKind = 0;
  Delivery delivery = DIR_MMAP;
};

std::string gBytes[5][10];
std::string gMapPath; // senone-to-codebook map of the derived "ms" model
std::vector<Fault> gFaults;
std::string gTmp;

std::string modelDir(int model) {
  if (model <= 1) return audio::repoDir() + "/model/" + MODELS[model];
  return derivedModelsDir() + (model == 4 ? "/semi" : "/mixw");
}

// which files of a derived layout are its own (the others are the bundled files, enumerated under en-us)
bool ownFile(int model, int file) {
  if (model <= 1) return file <= 7;
  if (model == 2) return file == 8;
  if (model == 3) return file == 8 || file == 9;
  return file == 1 || file == 2 || file == 3;
}

std::string pathOf(int model, int file) {
  if (file == 7) return audio::repoDir() + "/tests/data/feature_transform";
  if (file == 9) return gMapPath;
  return modelDir(model) + "/" + FILES[file].fname;
}

std::string slurpFile(const std::string &p) {
  std::string s;
  FILE *f = fopen(p.c_str(), "rb");
  if (!f) return s;
  char buf[65536];
  size_t n;
  while ((n = fread(buf, 1, sizeof buf, f)) > 0) s.append(buf, n);
  fclose(f);
  return s;
}

// offset of the first byte after the textual header of an s3 binary file / BMDF header
long headerEnd(const std::string &b, int file) {
  if (file == 0) { // BMDF: magic(4) version(4) len(4) format string(len) then int32 fields
    if (b.size() < 12) return 0;
    uint32_t len;
    memcpy(&len, b.data() + 8, 4);
    return 12 + (long)len;
  }
  if (file == 3) { // sendump: length-prefixed strings terminated by a zero length
    size_t off = 0;
    while (off + 4 <= b.size()) {
      uint32_t len;
      memcpy(&len, b.data() + off, 4);
      off += 4;
      if (len == 0) break;
      off += len;
    }
    return (long)off;
  }
  size_t p = b.find("endhdr\n");
  return p == std::string::npos ? 0 : (long)p + 7;
}

uint32_t corruptValue(uint32_t x, int vk) {
  switch (vk) {
  case 0: return 0;
  case 1: return 1;
  case 2: return x - 1;
  case 3: return x + 1;
  case 4: return x * 2;
  case 5: return 0x7fffffffu;
  case 6: return 0xffffffffu;
  default: return __builtin_bswap32(x);
  }
}

// byte offsets of the internal table boundaries of an intact binary model definition, taken from where the
// library's own reader (given the intact bytes) says the tables are
std::vector<long> mdefBoundaries(const std::string &b) {
  std::vector<long> out;
  s3file_t *s = s3file_init(b.data(), b.size());
  bin_mdef_t *m = s ? bin_mdef_read_s3file(s, FALSE) : NULL;
  if (m && m->alloc_mode == bin_mdef_t::BIN_MDEF_ON_DISK) {
    const char *base = b.data();
    out.push_back((const char *)m->ciname[0] - base);
    out.push_back((const char *)m->cd_tree - base);
    out.push_back((const char *)m->phone - base);
    const char *sseqSize = (const char *)(m->phone + m->n_phone);
    out.push_back(sseqSize - base);
    out.push_back((const char *)m->sseq[0] - base);
    int32 n;
    memcpy(&n, sseqSize, 4);
    out.push_back((const char *)(m->sseq[0] + n) - base);
  }
  if (m) bin_mdef_free(m);
  if (s) s3file_free(s);
  return out;
}

void buildFaults(bool thorough) {
  gFaults.clear();
  for (int m = 0; m < NMODELS; ++m)
    for (int f = 0; f < NFILES; ++f) {
      if (!ownFile(m, f)) continue;
      gBytes[m][f] = slurpFile(pathOf(m, f));
      const std::string &b = gBytes[m][f];
      if (b.empty()) continue;
      if (f == 7 && m == 1) continue; // one copy of the feature-transform file is enough
      long he = headerEnd(b, f);
      std::vector<Delivery> dels = {DIR_MMAP};
      if (thorough || f <= 4) dels.push_back(DIR_NOMMAP);
      if (m <= 1 && (f == 0 || f == 1 || f == 2 || f == 4)) dels.push_back(LOADER);
      for (Delivery dl : dels) {
        if (dl != LOADER) {
          gFaults.push_back({m, f, MISSING, 0, 0, dl});
          gFaults.push_back({m, f, EMPTY, 0, 0, dl});
        }
        // truncation: every length inside the header and the first 256 body bytes, around the end,
        // and on a grid over the body
        std::set<long> lens;
        long step = thorough ? 1 : 3;
        for (long L = 1; L < std::min<long>((long)b.size(), he + 256); L += step) lens.insert(L);
        for (long d = -6; d <= 6; ++d) {
          lens.insert(he + d);
          lens.insert(he + 4 + d);
        }
        for (long d = 1; d <= (thorough ? 16 : 6); ++d) lens.insert((long)b.size() - d);
        int grid = thorough ? 64 : 12;
        for (int g = 1; g < grid; ++g)
          for (long d = -1; d <= 1; ++d) lens.insert((long)b.size() * g / grid + d);
        // the model definition has tables of its own behind the header (names, tree, phones, the size word of the
        // senone-sequence table, the table itself): every length within 4 bytes of each of their boundaries
        if (f == 0)
          for (long bnd : mdefBoundaries(b))
            for (long d = -4; d <= 4; ++d) lens.insert(bnd + d);
        for (long L : lens)
          if (L > 0 && L < (long)b.size()) gFaults.push_back({m, f, TRUNC, L, 0, dl});
        // single-field corruption: the 32-bit words that follow the header (counts, dimensions,
        // byte-order magic), the last word (checksum) and the header's checksum flag
        if (FILES[f].binary) {
          // the words that really are header fields / counts / dimensions of this layout
          // (mdef: 10 counts; Gaussian files: magic + 3 counts + 3 stream lengths + total;
          //  sendump: rows, columns; tmat / transform: magic + 3 dims + total)
          //  mixture weights: magic + 3 dims + total; senone map: magic + codebook count + senone count)
          static const int NW[] = {10, 8, 8, 2, 5, 0, 0, 5, 5, 3};
          int nwords = NW[f];
          for (int w = 0; w < nwords; ++w) {
            long off = he + 4L * w;
            if (off + 4 > (long)b.size()) break;
            for (int vk = 0; vk < 8; ++vk) {
              if (!thorough && (vk == 1 || vk == 2 || vk == 4)) continue;
              gFaults.push_back({m, f, FIELD, off, vk, dl});
            }
          }
          if (f == 3) { // sendump: every length prefix of its header strings is a header field
            size_t off = 0;
            while (off + 4 <= b.size() && off < (size_t)he) {
              uint32_t len;
              memcpy(&len, b.data() + off, 4);
              for (int vk = 0; vk < 8; ++vk) gFaults.push_back({m, f, FIELD, (long)off, vk, dl});
              off += 4;
              if (len == 0) break;
              off += len;
            }
          }
          if (f != 0 && f != 3 && b.find("chksum0") != std::string::npos && b.find("chksum0") < (size_t)he) // checksum word of the s3 files that carry one
            for (int vk : {0, 3, 6}) gFaults.push_back({m, f, FIELD, (long)b.size() - 4, vk, dl});
          if (f == 0)
            for (long off : {0L, 4L, 8L})
              for (int vk : {0, 3, 5, 6, 7}) gFaults.push_back({m, f, FIELD, off, vk, dl});
          size_t ck = b.find("chksum0 yes");
          if (ck != std::string::npos) gFaults.push_back({m, f, FLIPBYTE, (long)ck + 8, 'n' ^ 'y', dl});
          size_t vs = b.find("version 1.0");
          if (vs != std::string::npos) gFaults.push_back({m, f, FLIPBYTE, (long)vs + 8, '1' ^ '9', dl});
        }
      }
    }
}

std::string faultStr(const Fault &f) {
  std::ostringstream o;
  o << MODELS[f.model] << "/" << FILES[f.file].fname << " ";
  switch (f.kind) {
  case MISSING: o << "missing"; break;
  case EMPTY: o << "zero-length"; break;
  case TRUNC: o << "truncated-at-" << f.arg << "-of-" << gBytes[f.model][f.file].size(); break;
  case FIELD: o << "word@" << f.arg << "<-" << (const char *[]){"0", "1", "x-1", "x+1", "2x", "0x7fffffff", "0xffffffff", "bswap(x)"}[f.valueKind]; break;
  case FLIPBYTE: o << "byte@" << f.arg << "^=" << f.valueKind; break;
  }
  o << " via " << (f.delivery == DIR_MMAP ? "decoder_init(mmap=yes)" : f.delivery == DIR_NOMMAP ? "decoder_init(mmap=no)" : "loader-on-exact-heap-copy");
  return o.str();
}

std::string damaged(const Fault &f) {
  std::string b = gBytes[f.model][f.file];
  switch (f.kind) {
  case MISSING:
  case EMPTY: b.clear(); break;
  case TRUNC: b.resize((size_t)f.arg); break;
  case FIELD: {
    uint32_t x;
    memcpy(&x, b.data() + f.arg, 4);
    x = corruptValue(x, f.valueKind);
    memcpy(&b[(size_t)f.arg], &x, 4);
    break;
  }
  case FLIPBYTE: b[(size_t)f.arg] = (char)(b[(size_t)f.arg] ^ f.valueKind); break;
  }
  return b;
}

config_t *baseConfig(int model) {
  config_t *cfg = config_init(NULL);
  config_set_str(cfg, "hmm", modelDir(model).c_str());
  if (model == 3) config_set_str(cfg, "senmgau", gMapPath.c_str());
  config_set_str(cfg, "dict", (verifDir() + (model != 1 ? "/data/mini.dic" : "/data/mini_fr.dic")).c_str());
  config_set_str(cfg, "loglevel", "FATAL");
  return cfg;
}

Verdict smokeDecode(decoder_t *d, const char *what, bool expectSentence, int model = 0) {
  const auto &a = model != 1 ? audio::goforward() : audio::goforwardFr();
  const char *text = model != 1 ? "go forward ten meters" : "avance de dix m\xc3\xa8tres";
  if (decoder_set_align_text(d, text) != 0) {
    // a damaged but self-consistent model (e.g. a renamed phone) may refuse the text through
    // its return value; only the intact model must accept it
    PBT_CHECK(!expectSentence, "intact-model-broken", what << ": align text refused");
    return Verdict::pass();
  }
  PBT_CHECK(decoder_start_utt(d) == 0, expectSentence ? "intact-model-broken" : "decode-after-load", what << ": start_utt failed");
  std::vector<int16_t> buf(a.begin(), a.begin() + (expectSentence ? (long)a.size() : 5000));
  int r = decoder_process_int16(d, buf.data(), buf.size(), 0, 0);
  PBT_CHECK(r >= 0, "decode-after-load", what << ": process returned " << r);
  PBT_CHECK(decoder_end_utt(d) == 0, "decode-after-load", what << ": end_utt failed");
  const char *h = decoder_hyp(d, NULL);
  if (expectSentence) PBT_CHECK(h && std::string(h) == text, "intact-model-broken", what << ": reference utterance decoded as '" << (h ? h : "NULL") << "'");
  return Verdict::pass();
}

Verdict runFault(const Fault &f, Ctx &ctx) {
  ctx.describe(faultStr(f));
  std::string bytes = damaged(f);
  std::string path = gTmp + "/damaged." + std::to_string(getpid());
  bool accepted = false;
  if (f.delivery == LOADER) {
    // exact-size heap copy: a read outside the file's bytes is an ASan report
    char *exact = (char *)malloc(bytes.size() ? bytes.size() : 1);
    memcpy(exact, bytes.data(), bytes.size());
    s3file_t *s = s3file_init(exact, bytes.size());
    logmath_t *lm = logmath_init(1.0001, 0, 1);
    if (f.file == 0) {
      bin_mdef_t *m = bin_mdef_read_s3file(s, 0);
      accepted = m != NULL;
      if (m) bin_mdef_free(m);
    } else if (f.file == 4) {
      tmat_t *t = tmat_init_s3file(s, lm, 1e-4);
      accepted = t != NULL;
      if (t) tmat_free(t);
    } else {
      // means / variances: the other file intact
      const std::string &other = gBytes[f.model][f.file == 1 ? 2 : 1];
      char *oex = (char *)malloc(other.size());
      memcpy(oex, other.data(), other.size());
      s3file_t *so = s3file_init(oex, other.size());
      gauden_t *g = f.file == 1 ? gauden_init_s3file(s, so, 1e-4f, lm) : gauden_init_s3file(so, s, 1e-4f, lm);
      accepted = g != NULL;
      if (g) gauden_free(g);
      s3file_free(so);
      free(oex);
    }
    s3file_free(s);
    logmath_free(lm);
    free(exact);
    ctx.label(accepted ? "outcome:loader-accepted" : "outcome:loader-refused");
  } else {
    if (f.kind != MISSING) {
      FILE *fp = fopen(path.c_str(), "wb");
      PBT_CHECK(fp != NULL, "harness-io", "cannot write " << path);
      fwrite(bytes.data(), 1, bytes.size(), fp);
      fclose(fp);
    } else
      unlink(path.c_str());
    config_t *cfg = baseConfig(f.model);
    config_set_str(cfg, FILES[f.file].cfgkey, path.c_str());
    config_set_bool(cfg, "mmap", f.delivery == DIR_MMAP);
    decoder_t *d = decoder_init(cfg);
    accepted = d != NULL;
    if (d) {
      // a corruption that still describes a self-consistent file may load: it must then work
      Verdict v = smokeDecode(d, "after loading the damaged file", false, f.model);
      decoder_free(d);
      if (!v.ok) {
        unlink(path.c_str());
        return v;
      }
    }
    unlink(path.c_str());
    ctx.label(accepted ? "outcome:init-succeeded" : "outcome:init-failed");
    // a truncated or missing model file cannot describe a whole model
    if ((f.kind == MISSING || f.kind == EMPTY || f.kind == TRUNC) && (f.file <= 4 || f.file >= 8) && accepted) {
      // sendump / means etc. cut inside the body must be refused
      return Verdict::fail(std::string("damaged-file-accepted:") + FILES[f.file].fname + ":" + (f.kind == TRUNC ? "truncated" : f.kind == EMPTY ? "empty" : "missing"), "initialisation succeeded although the file is damaged: " + faultStr(f));
    }
  }
  // an intact model afterwards loads normally
  {
    decoder_t *d = decoder_init(baseConfig(f.model));
    PBT_CHECK(d != NULL, "intact-model-broken", "the intact model does not load after the fault");
    Verdict v = smokeDecode(d, "intact model after the fault", true, f.model);
    decoder_free(d);
    if (!v.ok) return v;
  }
  ctx.label(std::string("file:") + FILES[f.file].fname);
  ctx.label(std::string("kind:") + (const char *[]){"missing", "empty", "truncation", "field", "header-byte"}[f.kind]);
  ctx.nontrivial = true;
  return Verdict::pass();
}

Verdict propC17(Choices &c, Ctx &ctx) {
  uint32_t idx = c.raw();
  if (idx < gFaults.size()) return runFault(gFaults[idx], ctx);
  // sampled part of the fault space: any truncation length, any single byte flipped
  Fault f;
  f.model = (int)(idx % 2);
  f.file = (int)c.range(0, 6);
  if (c.coin(15)) { // a file of one of the derived layouts
    static const int dm[] = {2, 3, 3, 4, 4, 4}, df[] = {8, 8, 9, 1, 2, 3};
    int k = (int)c.range(0, 5);
    f.model = dm[k];
    f.file = df[k];
  }
  if (gBytes[f.model][f.file].empty()) {
    f.model = (int)(idx % 2);
    f.file = 0;
  }
  long size = (long)gBytes[f.model][f.file].size();
  // (only truncation is sampled: the statement covers truncation at any byte and corruption of
  //  header fields and counts, not arbitrary corruption of the body data)
  f.kind = TRUNC;
  f.arg = c.range(1, size - 1);
  f.delivery = c.coin(50) ? DIR_MMAP : DIR_NOMMAP;
  if ((f.file == 0 || f.file == 1 || f.file == 2 || f.file == 4) && c.coin(40)) f.delivery = LOADER;
  ctx.label("sampled");
  return runFault(f, ctx);
}

// the senone-to-codebook map of the "ms" layout: version 1.2 (carries the codebook count), one uint32 per senone =
// the CI phone the model definition assigns to it, which is the mapping the PTM scorer assumes
void writeSenoneMap() {
  gMapPath = gTmp + "/senmgau." + std::to_string(getpid()) + ".map";
  bin_mdef_t *m = bin_mdef_read(NULL, (modelDir(0) + "/mdef").c_str());
  if (!m) return;
  std::string b = "s3\nversion 1.2\nendhdr\n";
  auto put = [&](uint32_t x) { b.append((const char *)&x, 4); };
  put(0x11223344u);
  put((uint32_t)bin_mdef_n_ciphone(m));
  put((uint32_t)bin_mdef_n_sen(m));
  for (int i = 0; i < bin_mdef_n_sen(m); ++i) put((uint32_t)bin_mdef_sen2cimap(m, i));
  bin_mdef_free(m);
  FILE *fp = fopen(gMapPath.c_str(), "wb");
  if (!fp) return;
  fwrite(b.data(), 1, b.size(), fp);
  fclose(fp);
  atexit([] { unlink(gMapPath.c_str()); });
}

bool thoroughTier() {
  const char *t = getenv("VERIF_TIER");
  return t && !strcmp(t, "thorough");
}

void initModel() {
  err_set_loglevel(ERR_FATAL);
  const char *tmp = getenv("VERIF_TMP");
  gTmp = tmp ? tmp : "/tmp";
  writeSenoneMap();
  buildFaults(thoroughTier());
  audio::goforward();
  audio::goforwardFr();
}

long countFaults() { return (long)gFaults.size(); }

} // namespace

namespace pbt {
const PropDef kProps[] = {
    {"C17", propC17, true, 60000, initModel, countFaults},
    {nullptr, nullptr, false, 0, nullptr},
};
}
