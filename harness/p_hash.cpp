// C20 — the hash table behaves as a map under any operation history.
// Stateful / model-based: generated op sequences over a collision-rich key
// pool, compared step by step against std::map.
#include "common/pbt.h"

extern "C" {
#include <soundswallower/glist.h>
#include <soundswallower/hash_table.h>
}

#include <map>
#include <string>
#include <vector>

using namespace pbt;

namespace {

const char kAlpha[] = {'a', 'A', 'b', 'B', 'z', '0', '_', (char)0x80, (char)0xff};
const char kBin[] = {0, 1, 'a', 'A', (char)0xff};

// k-th string over an alphabet of n symbols, shortlex order; k=0 -> ""
std::string nthString(uint64_t k, const char *alpha, int n) {
  std::string s;
  uint64_t block = 1;
  int len = 0;
  while (k >= block) {
    k -= block;
    block *= n;
    ++len;
  }
  for (int i = 0; i < len; ++i) {
    s.insert(s.begin(), alpha[k % n]);
    k /= n;
  }
  return s;
}

std::string fold(const std::string &s, bool nocase) {
  if (!nocase) return s;
  std::string o = s;
  for (auto &c : o)
    if (c >= 'a' && c <= 'z') c = (char)(c - 32);
  return o;
}

std::string show(const std::string &s) {
  std::string o = "'";
  char buf[8];
  for (unsigned char c : s) {
    if (c >= 0x20 && c < 0x7f && c != '\'' && c != '\\') o += (char)c;
    else {
      snprintf(buf, sizeof buf, "\\x%02x", c);
      o += buf;
    }
  }
  return o + "'";
}

struct ChainPos {
  int bucket = -1;
  int pos = -1;
  int len = 0;
};

// read-only walk to find where the entry for key sits
ChainPos locate(hash_table_t *h, const std::string &fk, bool nocase) {
  ChainPos cp;
  for (int b = 0; b < h->size; ++b) {
    hash_entry_t *e = &h->table[b];
    if (e->key == NULL) continue;
    int n = 0, found = -1;
    for (; e; e = e->next, ++n)
      if (fold(std::string(e->key, e->len), nocase) == fk) found = n;
    if (found >= 0) {
      cp.bucket = b;
      cp.pos = found;
      cp.len = n;
      return cp;
    }
  }
  return cp;
}

Verdict fullCheck(hash_table_t *h, const std::map<std::string, void *> &model,
                  bool nocase, bool bin, const std::vector<std::string> &pool) {
  PBT_CHECK((size_t)hash_table_inuse(h) == model.size(), "inuse",
            "inuse=" << hash_table_inuse(h) << " model=" << model.size());
  // iteration: every live key exactly once with its current value
  {
    std::map<std::string, int> seen;
    size_t n = 0;
    for (hash_iter_t *it = hash_table_iter(h); it; it = hash_table_iter_next(it)) {
      std::string k = fold(std::string(hash_entry_key(it->ent), hash_entry_len(it->ent)), nocase);
      ++n;
      PBT_CHECK(n <= model.size() + 5, "iter", "iteration yields more entries than live keys");
      auto m = model.find(k);
      PBT_CHECK(m != model.end(), "iter", "iteration visits absent key " << show(k));
      PBT_CHECK(m->second == hash_entry_val(it->ent), "iter", "iteration value mismatch for " << show(k));
      PBT_CHECK(++seen[k] == 1, "iter", "iteration visits " << show(k) << " twice");
    }
    PBT_CHECK(n == model.size(), "iter", "iteration visited " << n << " of " << model.size());
  }
  {
    int32 count = -1;
    glist_t g = hash_table_tolist(h, &count);
    std::map<std::string, int> seen;
    size_t n = 0;
    Verdict bad;
    for (gnode_t *gn = g; gn; gn = gnode_next(gn)) {
      hash_entry_t *e = (hash_entry_t *)gnode_ptr(gn);
      std::string k = fold(std::string(e->key, e->len), nocase);
      ++n;
      auto m = model.find(k);
      if (m == model.end()) bad = Verdict::fail("tolist", Msg() << "tolist has absent key " << show(k));
      else if (m->second != e->val) bad = Verdict::fail("tolist", Msg() << "tolist value mismatch " << show(k));
      else if (++seen[k] != 1) bad = Verdict::fail("tolist", Msg() << "tolist has " << show(k) << " twice");
    }
    glist_free(g);
    if (!bad.ok) return bad;
    PBT_CHECK(n == model.size() && (size_t)count == model.size(), "tolist",
              "tolist n=" << n << " count=" << count << " model=" << model.size());
  }
  // every pool key agrees with the model
  for (auto &k : pool) {
    void *val = (void *)0x1;
    int32 r = bin ? hash_table_lookup_bkey(h, k.data(), k.size(), &val)
                  : hash_table_lookup(h, k.c_str(), &val);
    auto m = model.find(fold(k, nocase));
    if (m == model.end()) PBT_CHECK(r == -1, "lookup", "absent key " << show(k) << " found");
    else
      PBT_CHECK(r == 0 && val == m->second, "lookup",
                "key " << show(k) << " r=" << r << " val=" << val << " want=" << m->second);
  }
  return Verdict::pass();
}

Verdict propHash(Choices &c, Ctx &ctx) {
  bool nocase = c.coin(50);
  bool bin = !nocase && c.coin(35);
  static const int sizes[] = {10, 1, 60, 5000, 0};
  int size = sizes[c.weighted({5, 2, 2, 1, 1})];
  int K = (int)c.range(2, 400);
  uint64_t space = bin ? 3906 /* len<=5 over 5 */ : 7381 /* len<=4 over 9 */;
  uint64_t base = (uint64_t)c.range(0, (int64_t)space - 1);
  static const uint64_t strides[] = {1, 7, 211, 1009};
  uint64_t stride = strides[c.range(0, 3)];
  if (c.coin(40)) base = 0; // include "" and the shortest keys
  std::vector<std::string> pool;
  for (int j = 0; j < K; ++j) {
    uint64_t idx = (base + (uint64_t)j * stride) % space;
    pool.push_back(bin ? nthString(idx, kBin, 5) : nthString(idx, kAlpha, 9));
  }
  // a second instance of each key, so "same key, different pointer" occurs
  std::vector<std::string> pool2 = pool;
  int nops = (int)c.range(1, 300);

  std::ostringstream d;
  d << "nocase=" << nocase << " bin=" << bin << " size=" << size << " K=" << K
    << " base=" << base << " stride=" << stride << " ops:";

  hash_table_t *h = hash_table_new(size, nocase ? HASH_CASE_NO : HASH_CASE_YES);
  std::map<std::string, void *> model;
  uintptr_t counter = 0;
  Verdict res;
  bool sawChainDelete = false;
  std::set<std::string> deleted;

  // prefill: enter a generated fraction of the pool so chains exist early
  int prefill = (int)(K * c.range(0, 100) / 100);
  d << " prefill=" << prefill << ";";
  for (int j = 0; j < prefill && res.ok; ++j) {
    const std::string &k = pool[j];
    std::string fk = fold(k, nocase);
    void *val = (void *)(++counter);
    void *r = bin ? hash_table_enter_bkey(h, k.data(), k.size(), val)
                  : hash_table_enter(h, k.c_str(), val);
    auto m = model.find(fk);
    if (m == model.end()) {
      if (r != val) res = Verdict::fail("enter-return", Msg() << "prefill enter new " << show(k) << " returned " << r);
      model[fk] = val;
    } else if (r != m->second)
      res = Verdict::fail("enter-return", Msg() << "prefill enter existing " << show(k) << " returned " << r);
  }
  for (int op = 0; op < nops && res.ok; ++op) {
    size_t kind = c.weighted({100, 48, 80, 60, 70, 1, 20, 21});
    bool second = c.coin(30);
    int ki = (int)c.range(0, K - 1);
    const std::string *key = second ? &pool2[ki] : &pool[ki];
    if (kind == 4) {
      // delete an element at a chosen position of the longest chain
      int bestB = -1, bestN = 0;
      for (int b = 0; b < h->size; ++b) {
        int n = 0;
        if (h->table[b].key)
          for (hash_entry_t *e = &h->table[b]; e; e = e->next) ++n;
        if (n > bestN) bestN = n, bestB = b;
      }
      if (bestB < 0) kind = 2;
      else {
        int where = (int)c.range(0, 2); // head / middle / tail
        int pos = where == 0 ? 0 : where == 2 ? bestN - 1 : bestN / 2;
        hash_entry_t *e = &h->table[bestB];
        for (int i = 0; i < pos; ++i) e = e->next;
        std::string kb(e->key, e->len);
        // find pool index with those bytes (fold-equal is enough)
        int found = -1;
        for (int j = 0; j < K; ++j)
          if (fold(pool[j], nocase) == fold(kb, nocase)) {
            found = j;
            break;
          }
        if (found < 0) {
          res = Verdict::fail("iter", Msg() << "table holds key " << show(kb) << " never entered");
          break;
        }
        ki = found;
        key = second ? &pool2[ki] : &pool[ki];
        kind = 2;
      }
    }
    std::string fk = fold(*key, nocase);
    auto m = model.find(fk);
    switch (kind) {
    case 0: { // enter
      void *val = (void *)(++counter);
      void *r = bin ? hash_table_enter_bkey(h, key->data(), key->size(), val)
                    : hash_table_enter(h, key->c_str(), val);
      d << " E" << ki << (second ? "'" : "");
      if (m == model.end()) {
        if (r != val) res = Verdict::fail("enter-return", Msg() << "enter new " << show(*key) << " returned " << r << " want " << val);
        model[fk] = val;
        ctx.labelIf(deleted.count(fk) > 0, "delete-then-reinsert");
      } else {
        ctx.label("enter-existing");
        if (r != m->second) res = Verdict::fail("enter-return", Msg() << "enter existing " << show(*key) << " returned " << r << " want " << m->second);
      }
      break;
    }
    case 1: { // replace
      void *val = (void *)(++counter);
      void *r = bin ? hash_table_replace_bkey(h, key->data(), key->size(), val)
                    : hash_table_replace(h, key->c_str(), val);
      d << " R" << ki << (second ? "'" : "");
      if (m == model.end()) {
        if (r != val) res = Verdict::fail("replace-return", Msg() << "replace new " << show(*key) << " returned " << r);
      } else {
        ctx.label("replace-existing");
        if (r != m->second) res = Verdict::fail("replace-return", Msg() << "replace existing " << show(*key) << " returned " << r << " want old " << m->second);
      }
      model[fk] = val;
      break;
    }
    case 2: { // delete
      ChainPos cp = locate(h, fk, nocase);
      void *r = bin ? hash_table_delete_bkey(h, key->data(), key->size())
                    : hash_table_delete(h, key->c_str());
      d << " D" << ki << (second ? "'" : "");
      if (m == model.end()) {
        ctx.label("delete-absent");
        if (r != NULL) res = Verdict::fail("delete-return", Msg() << "delete absent " << show(*key) << " returned " << r);
      } else {
        if (r != m->second) res = Verdict::fail("delete-return", Msg() << "delete " << show(*key) << " returned " << r << " want " << m->second);
        model.erase(m);
        deleted.insert(fk);
        if (cp.len >= 3) {
          sawChainDelete = true;
          ctx.label(cp.pos == 0 ? "chain-delete:head" : cp.pos == cp.len - 1 ? "chain-delete:tail" : "chain-delete:middle");
        } else if (cp.len == 2)
          ctx.label(cp.pos == 0 ? "chain2-delete:head" : "chain2-delete:tail");
        else if (cp.len == 1)
          ctx.label("delete:single");
        if (cp.bucket < 0) res = Verdict::fail("lookup", Msg() << "live key " << show(*key) << " not present in any chain");
      }
      break;
    }
    case 3: { // lookup (plain or int32)
      bool i32 = c.coin(30);
      int32 r;
      void *val = (void *)0x1;
      int32 ival = -7;
      if (i32)
        r = bin ? hash_table_lookup_bkey_int32(h, key->data(), key->size(), &ival)
                : hash_table_lookup_int32(h, key->c_str(), &ival);
      else
        r = bin ? hash_table_lookup_bkey(h, key->data(), key->size(), &val)
                : hash_table_lookup(h, key->c_str(), &val);
      d << (i32 ? " Li" : " L") << ki << (second ? "'" : "");
      if (m == model.end()) {
        if (r != -1) res = Verdict::fail("lookup", Msg() << "lookup absent " << show(*key) << " returned " << r);
      } else if (r != 0)
        res = Verdict::fail("lookup", Msg() << "lookup live " << show(*key) << " returned " << r);
      else if (i32 ? ival != (int32)(size_t)m->second : val != m->second)
        res = Verdict::fail("lookup", Msg() << "lookup " << show(*key) << " wrong value");
      break;
    }
    case 5: // empty
      hash_table_empty(h);
      model.clear();
      d << " X";
      ctx.label("empty-mid-history");
      break;
    case 6: // full check
      d << " C";
      res = fullCheck(h, model, nocase, bin, pool);
      break;
    case 7:
      d << " N";
      if ((size_t)hash_table_inuse(h) != model.size())
        res = Verdict::fail("inuse", Msg() << "inuse=" << hash_table_inuse(h) << " model=" << model.size());
      break;
    }
    if (res.ok && op % 10 == 9) res = fullCheck(h, model, nocase, bin, pool);
  }
  if (res.ok) res = fullCheck(h, model, nocase, bin, pool);
  // case-pairs simultaneously live (case-sensitive mode)
  if (!nocase && !bin) {
    for (auto &kv : model) {
      std::string up = fold(kv.first, true);
      if (up != kv.first && model.count(up)) {
        ctx.label("case-pair-live");
        break;
      }
    }
  }
  ctx.labelIf(model.count("") > 0, "empty-key-live");
  ctx.labelIf(bin, "mode:binary");
  ctx.labelIf(nocase, "mode:nocase");
  ctx.labelIf(!nocase && !bin, "mode:case-string");
  ctx.nontrivial = sawChainDelete;
  hash_table_free(h);
  ctx.desc = d.str();
  return res;
}

} // namespace

namespace pbt {
const PropDef kProps[] = {
    {"C20", propHash, false, 20000, nullptr},
    {nullptr, nullptr, false, 0, nullptr},
};
}
