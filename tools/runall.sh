#!/bin/bash
# Runs every registered check at one tier and prints one line per property.
# usage: tools/runall.sh [quick|thorough] [ids...]
cd "$(dirname "$0")/.." || exit 2
TIER=${1:-quick}; shift
IDS=${*:-$(python3 -c "import sys; sys.path.insert(0,'tools'); import registry; print(' '.join(sorted(registry.PROPS)))")}
mkdir -p build/logs
rc=0
for id in $IDS; do
  t0=$(date +%s)
  VERIF_TIER=$TIER ./check "$id" > "build/logs/$id.$TIER.log" 2>&1
  e=$?
  t1=$(date +%s)
  s=$(grep -m1 '^SUMMARY' "build/logs/$id.$TIER.log" | cut -c1-160)
  k=$(grep -c '^KNOWN-FINDING' "build/logs/$id.$TIER.log")
  echo "$id exit=$e known=$k $((t1-t0))s $s"
  [ $e -ne 0 ] && rc=1
done
exit $rc
