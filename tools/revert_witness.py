#!/usr/bin/env python3
"""For every `fixed:` line of known_findings.txt: revert that commit in the scratch worktree /tmp/mut (on top of /repo's
HEAD) and run the quick check of the property that exposed it; the check must report a violation.  A fix whose revert
does not apply cleanly any more (later fixes touch the same lines) is reported as such.
usage: revert_witness.py [commit-prefix ...]"""
import os, re, subprocess, sys
M = "/tmp/mut"
def sh(*a, **kw):
    return subprocess.run(list(a), capture_output=True, text=True, **kw)
if not os.path.isdir(M):
    sh("git", "-C", "/repo", "worktree", "add", "--detach", M)
head = sh("git", "-C", "/repo", "rev-parse", "HEAD").stdout.strip()
here = os.path.dirname(os.path.abspath(__file__))
want = [a for a in sys.argv[1:] if not a.startswith("--as=")]
as_pid = ([a[5:] for a in sys.argv[1:] if a.startswith("--as=")] or [None])[0]  # run another property's check instead
for line in open(os.path.join(here, "..", "known_findings.txt")):
    m = re.match(r"fixed:\s+property=(\S+)\s+([0-9a-f]{7,})\s+(.*)", line)
    if not m:
        continue
    pid, commit, text = m.groups()
    if as_pid:
        pid = as_pid
    if want and not any(commit.startswith(w) for w in want):
        continue
    sh("git", "-C", M, "checkout", "-q", "--", ".")
    sh("git", "-C", M, "checkout", "-q", "--detach", head)
    r = sh("git", "-C", M, "revert", "-n", "--no-edit", commit)
    if r.returncode:
        sh("git", "-C", M, "revert", "--abort")
        sh("git", "-C", M, "reset", "-q", "--hard", head)
        print("%s %s REVERT-CONFLICT  %s" % (pid, commit, text[:70]))
        continue
    env = dict(os.environ, VERIF_REPO=M)
    c = sh(os.path.join(here, "..", "check"), pid, "--tier", "quick", env=env)
    v = [l for l in c.stdout.splitlines() if l.startswith("VIOLATION")]
    print("%s %s %s  %s" % (pid, commit, "WITNESSED " + v[0].split("replay=")[1].split("/")[-1] if (c.returncode == 1 and v) else "NOT-WITNESSED(exit %d)" % c.returncode, text[:70]))
    sys.stdout.flush()
    sh("git", "-C", M, "reset", "-q", "--hard", head)
