#!/bin/bash
# Runs the repository's pinned suite (hook guard OFF: plain CMake build) and
# checks that the 30 stable tests of BASELINE.json pass.
# usage: baseline.sh [repo-dir]   (default /repo; build dir <repo>/_build)
R=${1:-/repo}
B=$R/_build
set -o pipefail
cmake -S "$R" -B "$B" -G Ninja -DCMAKE_BUILD_TYPE=RelWithDebInfo >/dev/null || exit 2
# the "check" target builds every test executable, then runs ctest (which
# includes 12 tests that always fail offline); only the build matters here
cmake --build "$B" --target check >/dev/null 2>&1
ctest --test-dir "$B" -j8 --timeout 900 > "$B/ctest.out" 2>&1
python3 - "$B/ctest.out" <<'PY'
import json, re, sys
stable = [s.split("::")[0] for s in json.load(open("/root/.vp/BASELINE.json"))["stable_pass"]]
out = open(sys.argv[1]).read()
passed = set(re.findall(r"Test\s+#\d+:\s+(\S+)\s+\.+\s*Passed", out))
missing = [t for t in stable if t not in passed]
print("baseline: %d/%d stable tests passed" % (len(stable) - len(missing), len(stable)))
if missing:
    print("NOT PASSING:", " ".join(missing))
    sys.exit(1)
PY
