"""Per-property registration: harness, budgets, non-triviality rule."""

PROPS = {}

MANIFEST_META = dict(
    hooks=dict(
        guard="SOUNDSWALLOWER_VERIF",
        enable="checks compile /repo/src with -DSOUNDSWALLOWER_VERIF (clang, ASan+UBSan, asserts on); no guarded hook exists so far: observation uses link-time --wrap and the installed internal headers",
        baseline_off_cmd="cmake -S /repo -B /repo/_build -G Ninja >/dev/null && cmake --build /repo/_build >/dev/null && ctest --test-dir /repo/_build -j8 --timeout 900",
        source_commits=[],
        add_only=True,
    ),
    engines=[
        dict(name="rapidcheck", path="/verif/harness/common/pbt_main.cpp",
             serves_properties=[],
             kind_free_text="rapidcheck generates (explicit choice prefix, tail seed); harnesses decode the materialised choice sequence into structured cases; forked case isolation, crash classification, delta-debugging shrinker, plain replay path"),
    ],
    not_applicable={},
    notes="Driver: ./check <ID> [--tier quick|thorough] [--replay FILE]; VERIF_SEED and VERIF_TIER honoured. Known findings: known_findings.txt.",
)

PROPS["C20"] = dict(
    harness="hash",
    level="exploration",
    technique="model-based stateful property testing (rapidcheck-generated op histories vs std::map reference model)",
    level_text="Generated operation histories over collision-rich key pools are compared step by step with a std::map reference; exploration only - absence of violations on the explored histories, not a proof.",
    level_note="Trusted: std::map, the harness' read-only chain inspection, ASan/UBSan runtimes. Assumes keys stay alive (the table does not copy keys) and binary keys only on case-sensitive tables.",
    quick=dict(cases=7000, maxlen=1300, budget=60),
    thorough=dict(cases=60000, maxlen=1300, budget=600),
    rule=("rapidcheck generates a choice sequence decoded into (case mode, string|binary keys, size request, "
          "key pool of 2-400 keys drawn from a collision-rich shortlex space over {a,A,b,B,z,0,_,0x80,0xff} or "
          "{00,01,a,A,ff}, then 1-300 ops enter/replace/delete/lookup(+_int32,_bkey)/delete-at-chain-position/"
          "empty/full-iteration-and-tolist check); every op is compared with a std::map model. Non-trivial = the "
          "history deleted an element of a collision chain of length >= 3; distinct = distinct op-sequence text."),
    assumptions=["keys stay alive and unmodified while stored (the table does not copy keys)",
                 "binary keys are used only with case-sensitive tables and never mixed with string keys in one table",
                 "values are distinct non-NULL tokens"],
)

PROPS["C19"] = dict(
    harness="logmath",
    level="exploration",
    technique="property-based testing with a long-double reference model; exhaustive sweep of the table index per generated (base, shift) configuration",
    level_text="Each generated case fixes one (base, shift) configuration (the three the library uses plus generated bases in (1.00005,2] and shifts 0-12) and sweeps EVERY difference d from 0 to table_size+64 for five anchors against a long-double reference of log_b(b^x+b^y); symmetry, bounds, monotonicity, identity, add_exact and the log/exp round trip are asserted. Exhaustive in d per configuration, sampled over configurations.",
    level_note="Trusted: libm long double log1pl/expl/logl as reference (error << 1e-6 unit), ASan/UBSan. Arguments stay within (log-zero, 2^27] so that x-y cannot overflow int, which is what callers pass.",
    quick=dict(cases=3000, maxlen=1400, budget=90),
    thorough=dict(cases=20000, maxlen=1400, budget=900),
    rule=("one case = one (base, shift) configuration [library: (1.0001,0), (1.0001,10), (1.0003,0); generated: base-1 log-uniform in [5e-5,1], "
          "shift 0-12] swept over every table index d in [0, table_size+64] x 5 anchors, plus 40 far/identity pairs, 60 add_exact pairs and 400 "
          "round-trip probabilities (log-uniform, exact powers, around 1). Every case is non-trivial (a full table sweep); distinct = distinct "
          "(base, shift, anchors) text."),
    assumptions=["log-probability arguments lie in (log-zero, 2^27] so differences do not overflow int"],
)

PROPS["C06"] = dict(
    harness="fe",
    level="exploration",
    technique="differential + metamorphic property-based testing (chunked/limited runs vs single-call run, int16 vs float32, per-frame locality, closed-form frame count)",
    level_text="Generated front-end configurations, signals, chunk plans and per-call output limits; every frame of the chunked run must be bit-identical to the single-call run, to the other encoding, and to a fresh run over the frame's own samples; frame count must match a closed form; sample accounting is exact. Exploration: no failure on the explored cases.",
    level_note="Trusted: memcmp on float frames, the harness' closed-form frame count (itself compared with the library on every case), ASan/UBSan with each chunk in an exact-size heap block. dither is never enabled (documented random).",
    quick=dict(cases=4000, maxlen=160, budget=90),
    thorough=dict(cases=12000, maxlen=160, budget=900),
    rule=("choices decode to (FE configuration: sample rate, frame rate, window, nfft, transform, lifter, remove_noise, remove_dc, logspec/smoothspec, "
          "filterbank, alpha, endian; signal length from a boundary-biased mixture incl. >128 frames and >32767+window samples; signal family; "
          "cyclic chunk plan; cyclic per-call output limits; int16|float32). Non-trivial = >=3 frames, >=2 processing calls and at least one call "
          "left a partial window in the overflow buffer; distinct = distinct case text."),
    assumptions=["output limit per call >= 1 (documented loop); window >= shift (initialiser requirement)", "dither off"],
)

PROPS["C05"] = dict(
    harness="jsgf",
    level="exploration",
    technique="property-based testing against a reference model: bounded language of the JSGF seen as a CFG (least fixpoint) vs bounded language of the compiled FSG; must-refuse classifier; weight normalisation and proportionality",
    level_text="Generated JSGF ASTs (sequences, weighted alternatives, groups, optionals, star/plus, rule references, <NULL>, <VOID>, tags, comments, quoting, header variants; one injected recursion/refusal class) are printed with random layout and compiled; the language of the FSG up to k words must equal the CFG language in both directions; unrepresentable classes must be refused through the return value, representable ones must not; outgoing probabilities sum to one per state of the raw automaton and best-path probabilities are proportional to the written weights. A twelfth class has embedded recursion through two rules with optional legal tail self-references around it; grammars whose expansion exceeds 1200 states are excluded and counted (known null-closure blow-up).",
    level_note="Trusted: the harness' CFG least-fixpoint enumerator and epsilon-NFA enumerator (fsa.h), logmath_exp/log (judged by C19). Bounded to k words (k chosen so that the full sentence space has <= 2500 strings); weights are only generated on alternatives (the only place JSGF defines them).",
    quick=dict(cases=900, maxlen=400, budget=90),
    thorough=dict(cases=20000, maxlen=400, budget=900),
    rule=("choices decode to a JSGF AST: 1-4 rules over 2-4 words, depth 1-3, operators sequence/alternatives(+weights)/group/optional/star/plus/"
          "rule reference/<NULL>, tags and quoting, plus one class from {plain, tail recursion direct/nested/mutual, left recursion, embedded "
          "recursion direct/nested/under-star, undefined rule, <VOID>, no public rule}; printed with random whitespace/comments/header. "
          "Non-trivial = must-refuse class, or language has >= 3 sentences up to k and the AST uses >= 2 distinct operators; distinct = distinct grammar text."),
    assumptions=["tokens are compared after stripping one pair of surrounding quotes", "weights appear only at the start of alternatives"],
)

PROPS["C13"] = dict(
    harness="fsg",
    level="exploration",
    technique="property-based testing with a harness automaton library: best-weight bounded language before/after each transformation (metamorphic), idempotence, write/read round trip with a derived tolerance",
    level_text="Random FSGs built through the fsg_model API (duplicates, self-loops, null chains and cycles, unreachable states, start==final, probabilities log-uniform down to 1e-6, lw in {0.5,1,6.5,9.5}) are copied out through the public arc iterator; duplicate merging, closure (language, completeness for one null step, idempotence), silence/filler loops (language modulo fillers, presence, idempotence), alternates (language modulo alternate projection, parallel arcs) and write->read are compared with the harness' own epsilon-NFA computations. A third of the cases draw their vocabulary from spellings that differ only in letter case.",
    level_note="Trusted: fsa.h enumerator (bounded to k words, k chosen per case), logmath_log/exp (C19). The alternate lists emulate the dictionary; the dictionary-driven path through fsg_search is exercised by the decode harness.",
    quick=dict(cases=5000, maxlen=200, budget=90),
    thorough=dict(cases=30000, maxlen=200, budget=900),
    rule=("choices decode to an FSG: 1-8 states, start/final, lw, 0-14 word arcs over 1-5 words (20% duplicates of earlier arcs with another "
          "probability, 15% self-loops), 0-8 null arcs (40% as a chain/cycle over consecutive states), probabilities from {1, k/1000, log-uniform "
          "[1e-6,1], 1e-6}, alternates for some words. Non-trivial = language has >= 2 sentences up to k and the input has a null chain or duplicate arcs; "
          "distinct = distinct case text."),
    assumptions=["state numbers passed to the API are in range (its FIXME says it does not check)", "arc log-probabilities are <= 0"],
)

PROPS["C15"] = dict(
    harness="ep",
    wrap=["vad_classify"],
    level="exploration",
    technique="model-based stateful property testing: generated speech/non-speech decision histories (vad_classify interposed with --wrap) vs a queue/state-machine reference model",
    level_text="The voice-activity classifier is replaced at link time by generated decision sequences (runs biased around the window length); every endpointer_process call, the in-speech flag, start/end times and endpointer_end_stream are compared with a reference deque model; frames carry serial numbers so identity, order, gaps, repeats and byte-exactness are decided. Exploration over histories and configurations.",
    level_note="Trusted: the 60-line reference model (thresholds recomputed from window/ratio with the documented formulas), ASan on exact-size input frames. The real WebRTC classifier is bypassed by design: the property quantifies over decision sequences.",
    quick=dict(cases=80000, maxlen=700, budget=90),
    thorough=dict(cases=300000, maxlen=700, budget=900),
    rule=("choices decode to (sample rate, frame length, window 2-40 frames, ratio incl. values that let speech start before the window fills, "
          "0-400 decisions generated as runs, end-of-stream point and trailing partial frame length). Non-trivial = at least one segment and the "
          "stream is longer than the window; distinct = distinct case text."),
    assumptions=["decisions are 0/1 (what vad_classify returns without error)"],
)

_DECODE_RULE = ("choices decode to (decoder: default | compallsen; beams default/tight/open, lw, wip, pip, fillers and alternates on/off; grammar through "
                "JSGF text (generated AST) | FSG text (arc list, null arcs, loops) | alignment text over a 67-entry dictionary; audio 0-60000 samples from "
                "{speech excerpt (reversed/clipped), noise, silence, DC, square, impulses, sine}; chunk plan incl. single samples, no_search chunks, full_utt; "
                "partial queries after chunks). ")

PROPS["C01"] = dict(
    harness="decode",
    level="exploration",
    technique="property-based testing with a validity predicate: the harness' own acceptor (Thompson NFA of the JSGF AST / FSG arc list / alignment chain) and a path simulation over the grammar the search holds",
    level_text="Every generated decode's final segmentation (labels incl. fillers, alternates, null markers) must simulate a start->final path of the augmented grammar, its real words must be accepted by the harness' own acceptor of the grammar as written, the hypothesis string must equal that projection, and partial results must be prefix paths. Exploration over grammars, audio, beams, chunkings and query points. FSG and alignment-text grammars may name numbered pronunciation variants explicitly; FSGs may contain two rhyming words entering one state from different states.",
    level_note="Trusted: fsa.h acceptor and the Thompson construction (jsgfgen.h), the dictionary's filler flag. Each case runs in a forked child of a process holding pristine decoders.",
    quick=dict(cases=260, maxlen=600, budget=100),
    thorough=dict(cases=6000, maxlen=600, budget=1200),
    rule=_DECODE_RULE + "Non-trivial = final hypothesis with >= 2 real words, or a non-NULL partial hypothesis; distinct = distinct case text.",
    assumptions=["grammar words are dictionary words", "JSGF grammars in this harness are non-recursive (recursion is judged by C05)"],
)

PROPS["C03"] = dict(
    harness="decode",
    level="exploration",
    technique="property-based testing of invariants over one result: tiling cursor rule, hypothesis == projection, telescoping score sum, frame bookkeeping against the closed-form frame count",
    level_text="For every generated decode, final and partial: segments tile from frame 0 (null segments are zero-length markers at cursor-1), none extends past the frames searched, hyp equals the base forms of the non-filler words, ascr+lscr sums to the path score, returned frame counts equal the search's frame counter, decoder_n_frames moves by the returned count, and the total equals the front end's closed-form frame count for the samples supplied.",
    level_note="Trusted: the closed-form frame count (validated against the front end on every C06 case), read-only access to the search's frame counter.",
    quick=dict(cases=260, maxlen=600, budget=100),
    thorough=dict(cases=6000, maxlen=600, budget=1200),
    rule=_DECODE_RULE + "Non-trivial = a result with >= 3 segments of which at least one is a filler or a null marker; distinct = distinct case text.",
    assumptions=["16 kHz / 100 frames per second decoders (410-sample window, 160-sample shift)"],
)

PROPS["C11"] = dict(
    harness="decode",
    level="exploration",
    technique="property-based testing of graph invariants on generated decodes: acyclicity, start/end reachability, link time adjacency, every lattice path simulated on the grammar the search holds, first-best segmentation found as a chain of linked nodes, cache identity",
    level_text="The lattice is requested after chunks and at the end of generated decodes and copied out through the public node/link iterators; DFS/topological checks decide acyclicity and that every node lies on a start-end path; every link joins frame t to t+1 inside the utterance; (node, grammar-state-set) pairs are propagated along all paths of the DAG so that every path is simulated on the augmented grammar; the 1-best segmentation must be a chain of linked nodes; asking twice returns the same object.",
    level_note="Trusted: latalg.h / fsa.h. Synthetic <s>/</s> nodes are recognised by spelling at the start/end position and treated as zero-length. NULL lattices are allowed by the documentation and counted, not judged. Pair propagation is capped at 50,000 pairs (labelled).",
    quick=dict(cases=200, maxlen=600, budget=100),
    thorough=dict(cases=6000, maxlen=600, budget=1200),
    rule=_DECODE_RULE + "Non-trivial = a lattice with >= 4 nodes and >= 2 distinct start-to-end paths; distinct = distinct case text.",
    assumptions=["grammar words are dictionary words"],
)

PROPS["C12"] = dict(
    harness="decode",
    level="exploration",
    technique="property-based testing with independent recomputation over the lattice: longest-path DP, exhaustive path enumeration (<= 20000 paths), long-double forward/backward with a per-link rounding bound derived from the log-add error",
    level_text="On the lattices of generated decodes: lattice_bestpath must return a link into the end node whose score equals an independent longest-path DP and whose best_prev chain is a connected start-end path summing to that score; alpha/beta/normaliser are compared with a long-double forward-backward within a bound accumulated from 0.5 unit per log-add; posteriors <= 0 within that bound; forward and backward totals agree; N-best scores are non-increasing, the first equals the best path, each hypothesis is the word sequence and score of an enumerated start-end path and its segmentation is a chain of linked nodes. On lattices with at least 3000 paths the N-best list is walked up to 6000 hypotheses (order and membership clauses), far past the search's 500-path agenda.",
    level_note="Trusted: latalg.h, libm long double. N-best is read after best-path/posterior (not interleaved: both reuse one per-node scratch field). Lattices that already violate C11's reachability invariants are skipped (labelled) and left to C11.",
    quick=dict(cases=200, maxlen=600, budget=100),
    thorough=dict(cases=6000, maxlen=600, budget=1200),
    rule=_DECODE_RULE + "Non-trivial = the N-best list holds >= 2 distinct word sequences; distinct = distinct case text.",
    assumptions=["the per-link term (ascr<<10)*ascale is computed with the same float expression as the library; only log-add rounding is bounded"],
)

PROPS["C14"] = dict(
    harness="decode",
    level="exploration",
    technique="property-based testing with a strict RFC 8259 parser as validity oracle, allocator-size equality for the buffer clause, and field-by-field differential against the hypothesis / segmentation / alignment iterators formatted with the same %.3f",
    level_text="decoder_result_json is requested at partial points and at the end of generated decodes, for levels 0/1/2, start offsets {0, large fractional, tiny, negative}, frame rates {100, 50, 125} and a dictionary extended with spellings containing quotes, backslashes, control characters, multi-byte UTF-8 and a 200-byte word; the text must parse as exactly one JSON object plus one newline, be exactly as long as its allocation (sanitizer allocator query), and every b/d/p/t field and nested list must equal what the iterators report. A quarter of the cases change the frame rate of the live decoder through its configuration and decoder_reinit_feat before the utterance.",
    level_note="Trusted: json.h parser, __sanitizer_get_allocated_size, snprintf %.3f. Bytes that are not valid UTF-8 are not generated (no JSON text can carry them).",
    quick=dict(cases=400, maxlen=600, budget=100),
    thorough=dict(cases=5000, maxlen=600, budget=1200),
    rule=_DECODE_RULE + "Decoders additionally: hostile-spelling dictionary at frame rates 100/50/125 with FSG or alignment-text grammars over those spellings; JSON level 0/1/2 and start offset per case. Non-trivial = a JSON result with >= 2 word entries; distinct = distinct case text.",
    assumptions=["word spellings are valid UTF-8 without whitespace (the dictionary format cannot carry whitespace)"],
)

PROPS["C07"] = dict(
    harness="decode",
    level="exploration",
    technique="differential property-based testing: the same audio, grammar and channel-normalisation state decoded in one call (in an isolated copy of the pristine process) vs in generated chunkings / buffering modes / entry points / partial-query schedules; exact equality of the canonical result record",
    level_text="For generated audio shorter than the live-CMN update window, the record (hypothesis, path score, every segment with frames and scores, decoder_n_frames, frames searched, full word/phone/state alignment) of a run with arbitrary chunking (down to single samples, first chunk shorter than a window, no_search chunks, float32 entry, partial hyp/seg/lattice/N-best/JSON/alignment queries in between) must be string-equal to the record of the one-call run after the same decoder_set_cmn. A quarter of the cases put the same earlier streamed utterance before both runs so the rings do not start at slot 0.",
    level_note="Trusted: fork isolation (both runs start from the same pristine decoder image), the canonical record. full_utt is not part of the equality (its documentation promises potentially different results).",
    quick=dict(cases=200, maxlen=600, budget=100),
    thorough=dict(cases=3000, maxlen=600, budget=1200),
    rule=_DECODE_RULE + "Variant run: chunk plan, per-chunk no_search, int16|float32, partial-query mask; cmn state from {default, generated, zero}. Non-trivial = >= 3 chunks and the one-call run has a hypothesis; distinct = distinct case text.",
    assumptions=["audio shorter than 300 frames so that live CMN cannot shift inside the utterance (the property's own restriction)"],
)

PROPS["C08"] = dict(
    harness="decode",
    level="exploration",
    technique="differential property-based testing over generated histories: the target utterance after a history of utterances / grammar switches / failed utterances / result queries vs the same utterance on a fresh decoder (isolated copy of the pristine process); repetition determinism; two-decoder interleavings vs solo runs",
    level_text="Generated histories of 1-4 utterances (streaming, buffered, full_utt; zero audio; no hypothesis; grammar switched and switched back; partial and final lattice/N-best/JSON/alignment queries; set_cmn) followed by a target utterance whose channel-normalisation state is reset with decoder_set_cmn (no reset for full_utt with cmn=batch): the canonical record must equal the one of a fresh decoder, and running it twice gives the same record; chunk-level interleavings of two live decoders must give each decoder its solo record; get_cmn/set_cmn text is a fixpoint. A sibling utterance may share the target's grammar object (no reinstall) as well as its frame count; lattices are compared by an order-independent fingerprint of all nodes and links.",
    level_note="Trusted: fork isolation as the definition of 'fresh decoder' (same pristine image), the canonical record (hyp, score, segments with scores, frame counts, alignment, lattice size).",
    quick=dict(cases=50, maxlen=900, budget=80),
    thorough=dict(cases=2000, maxlen=900, budget=1500),
    rule=_DECODE_RULE + "History family: 1-4 history utterances then a target; decoders default | compallsen | cmn=batch. Two-decoder family: two utterances interleaved chunk by chunk. Non-trivial = history of >= 2 steps differing from the target in audio or grammar and a target hypothesis (history family), or a hypothesis on either decoder (two-decoder family); distinct = distinct case text.",
    assumptions=["the channel-normalisation state is the one deliberate carry-over and is reset with decoder_set_cmn"],
)

PROPS["C16"] = dict(
    harness="decode",
    level="exploration",
    technique="model-based stateful property testing: generated histories of word additions (valid and invalid), lookups and immediate use in forced alignment against a reference dictionary model (map + alternate chains)",
    level_text="Histories of 1-22 operations on a live decoder: additions over word classes {new, alternate with/without base, duplicate of base/alternate, empty, one char, 300 chars, odd parentheses, case variant} x pronunciation classes {1/2/3-6/30 phones, one-letter phones, odd blanks/tabs, unknown phone at any position, wrong case, empty, blank}, bursts of 4200 additions across the reallocation step, lookups, and forced alignment over a just-added word; after every operation the return value, word count, identities, pronunciations and every alternate chain (walked read-only) are compared with the model, and the whole dictionary at the end.",
    level_note="Trusted: the reference model (std::map, per-base alternate sets), the model's acceptance rule derived from the property text (phones over the model's phone set, non-empty word and pronunciation, not a duplicate, alternates need their base).",
    quick=dict(cases=500, maxlen=500, budget=100),
    thorough=dict(cases=12000, maxlen=500, budget=1200),
    rule=("choices decode to an operation history: add(word class, pronunciation class, update flag) / burst of 4200 adds / lookup / align-and-decode "
          "with a newly added word. Non-trivial = the history contains at least one accepted and one rejected addition; distinct = distinct history text."),
    assumptions=["the dictionary is case-sensitive (dictcase default)", "word spellings used in alignment text contain no whitespace"],
)

PROPS["C04"] = dict(
    harness="decode",
    level="exploration",
    technique="property-based testing of hierarchy invariants on generated decodes: alignment words vs first-pass segmentation, phones vs dictionary, states vs model, contiguity and partition at every level, parent = sum of children, repeatability / no stale object after failure, senone sequences vs the model definition, and a cross-pass score relation (second pass >= first pass within the same word boundaries, equal with pruning disabled)",
    level_text="decoder_alignment is requested at partial points and at the end of generated decodes (alignment text, JSGF and FSG grammars; speech, noise and degenerate audio; streaming, buffered and full_utt input): the words must be exactly the dictionary words of the first-pass segmentation with the same start frames and durations, phones the dictionary pronunciation, states the model's emitting states; every level contiguous from frame 0 with positive durations, children partitioning their parent; parent score equal to the sum of its children; the same content when asked twice, and NULL stays NULL; the senone ids under each phone are the emitting states, in order, of a model of that phone (exactly the neighbour-selected triphone for word-internal phones); on the compallsen decoder each multi-phone word that is followed by another word scores at least the acoustic part the search gave it (segment ascr minus the configured insertion penalties), and exactly that with beams disabled.",
    level_note="Trusted: the iterators of alignment.h as observation interface, dictionary accessors for the expected pronunciation. The cross-pass clause is not judged for the last word of a result, for one-phone words, or without compallsen: there the two passes use different models or normalisation by design (DESIGN 9.2). No independent within-word DP is built.",
    quick=dict(cases=200, maxlen=600, budget=100),
    thorough=dict(cases=5000, maxlen=600, budget=1200),
    rule=_DECODE_RULE + "Non-trivial = an alignment with >= 2 real words; distinct = distinct case text.",
    assumptions=["grammar words are dictionary words"],
)

PROPS["C02"] = dict(
    harness="viterbi",
    wrap=["acmod_score"],
    level="exploration",
    technique="property-based testing against an independent reference model: explicit max-plus token passing over the expanded grammar x pronunciation x triphone x HMM-state network, fed with the senone scores captured (--wrap=acmod_score) from the run being judged; exact integer equality",
    level_text="Generated small grammars (FSG with null arcs, loops, branching into/out of states, fillers and alternates on/off) over generated pronunciations (1-4 phones over the whole phone set) and dictionary words, lw/wip/pip variations, 1-118 frames of speech/noise, beams opened: the path score the decoder reports must equal the optimum of a reference DP that shares no code or data structure with the lextree/history (own triphone lookup by linear scan with the documented back-off, own 3-state evaluator, own cross-word context rule, unbounded null chains). No legal alignment <=> no result.",
    level_note="Trusted: the reference DP (its scoring conventions were validated against the decoder on linear grammars during design), tmat/mdef data as loaded, the captured senone scores (taken as given, as the property says). Decided in the no-clamping regime (cases whose score spread approaches WORST_SCORE are counted as out-of-regime); compallsen=yes so that every senone score is defined; 3-state left-to-right models (the bundled ones).",
    quick=dict(cases=300, maxlen=400, budget=100),
    thorough=dict(cases=8000, maxlen=400, budget=1200),
    rule=("choices decode to (0-4 new words with generated pronunciations, 0-3 dictionary words, FSG of 1-5 states and 1-9 arcs incl. null arcs and self-loops, "
          "lw in {6.5,1,9.5}, wip in {0.65,1,0.2}, pip in {1,0.5}, fillers/alternates on/off, audio of 1-19000 samples). Non-trivial = the optimal result has >= 2 real "
          "words, or >= 1 real word with a grammar word whose left contexts select >= 2 distinct word-initial models; distinct = distinct case text."),
    assumptions=["beam=pbeam=wbeam=0 and maxhmmpf=-1 disable pruning", "utterances <= 120 frames keep scores far from WORST_SCORE"],
)

PROPS["C18"] = dict(
    harness="viterbi",
    wrap=["acmod_score"],
    level="exploration",
    technique="property-based testing with range/finiteness predicates over adversarial signal families; every frame handed to the scorer is inspected through --wrap=acmod_score; UBSan signed-overflow and implicit-truncation instrumentation on the scorer files",
    level_text="Adversarial signals (digital silence, DC at the rails, full-scale squares incl. Nyquist, impulses, 1-LSB and full-scale noise, speech x 0, clipped speech, silence/noise alternation, float32 at and beyond +-1.0) through (a) the front end alone over generated configurations and (b) the decoder (streaming and full_utt, both scorer modes, large-magnitude cmninit strings; thorough tier: 30 s - 3 min utterances of forced alignment): every cepstral value and every dynamic-feature value reaching the scorer is finite, every (active) senone score is within range with the best normalised to 0, segment scores are non-positive and sum to a path score in [WORST_SCORE, 0], and the exported channel-normalisation text is finite and a fixpoint of import/export. Ten per cent of the decoder cases each run on a semi-continuous layout, on the general multi-stream scorer and on the PTM scorer with float mixture weights (layouts derived from en-us, DESIGN.md 9.9); the channel-normalisation text is also read in the middle of streamed utterances long enough for the live window to shift and compared with the mean in use.",
    level_note="Trusted: std::isfinite, the sanitizer instrumentation (signed-integer-overflow everywhere, implicit-signed-integer-truncation on ptm_mgau.c/s2_semi_mgau.c/ms_mgau.c/hmm.c). Front-end configurations are kept to those whose FFT resolves every mel filter (a coarser FFT is a separately keyed class).",
    quick=dict(cases=900, maxlen=300, budget=100),
    thorough=dict(cases=4000, maxlen=300, budget=1800),
    rule=("choices decode to family {front end alone: sample rate, frame rate, window, FFT size, filterbank, transform, noise/DC removal, log-spectrum; "
          "decoder: scorer mode, beams, streaming|full_utt, cmninit} x adversarial signal family x length. Non-trivial = >= 3 front-end frames, or >= 10 frames "
          "inspected at the scorer; distinct = distinct case text."),
    assumptions=["dither off"],
)

PROPS["C17"] = dict(
    harness="model",
    level="fault_enumeration",
    enumerate=True,
    exhaustive=True,
    technique="deterministic fault enumeration (missing / zero-length / truncation at every header byte and structural boundary / single-field corruption of every leading count and dimension word, checksum and header flags) plus seeded sampling of the remaining truncation lengths and byte flips; each fault in a forked child under ASan/UBSan",
    level_text="For both bundled models and each file (mdef, means, variances, sendump, transition_matrices, feat_params.json, noisedict.txt, plus the repository's feature_transform) every enumerated fault is delivered through decoder_init with mmap on and off and, for mdef/means/variances/tmat, through the loader's *_s3file entry point on a heap copy of exactly the damaged length (so that reading outside the file's bytes is an ASan report): the child must return, initialisation must fail through its return value (or load a still self-consistent file and survive a short decode), truncated/empty/missing binary files must never be accepted, and the intact model must afterwards load and decode the reference utterance correctly in the same process. Three layouts derived from en-us by tools/gen_models.py are enumerated as well (their own files only): a float mixture_weights file read by the PTM scorer, the same file plus a version 1.2 senone-to-codebook map served by the general scorer (ms_mgau / ms_senone), and a one-codebook semi-continuous layout (s2_semi_mgau).",
    level_note="Trusted: ASan/UBSan, the harness' header-end computation for the three file layouts. The enumerated sub-space (counts reported per run) is covered exhaustively; the remaining truncation lengths and byte flips are sampled by the generated campaign.",
    quick=dict(cases=25, maxlen=16, budget=100),
    thorough=dict(cases=600, maxlen=16, budget=1500),
    rule=("fault index < enumerated count selects one fault of the deterministic list (files x {missing, empty, truncation lengths, 32-bit field corruptions "
          "with 8 replacement values, header byte flips} x {mmap, no mmap, loader on exact heap copy}); larger indices decode to sampled truncation lengths / bit flips. "
          "Every fault is non-trivial; distinct = distinct fault description."),
    assumptions=["feat_params.json / noisedict.txt damage may legitimately still load (text files): then the decoder must work"],
)

PROPS["C09"] = dict(
    harness="api",
    leaks=True,
    level="exploration",
    technique="stateful property-based testing: rapidcheck-generated API call histories in a 25-operation language, interpreted against one or two decoders created inside a forked child under ASan/UBSan with asserts on; a liveness-tracking interpreter, documented-return-value oracle, fixed follow-up utterance, and an explicit LeakSanitizer pass after the last reference is released",
    level_text="Histories of 3-40 calls over decoder_set_jsgf_string / set_fsg / set_align_text (valid and must-refuse arguments), decoder_add_word, start_utt / process_int16 / process_float32 (0 to 70,000 samples, no_search and full_utt flags) / end_utt, hyp, prob, seg iterators (partly walked, abandoned), N-best with segmentations, lattice (walk, bestpath, posterior, retain past the utterance), alignment iterators over three levels, result JSON, timing and cmn accessors, lookup, reinit / reinit_feat, retain/free pairs, set_logfile(NULL), freeing a decoder at any point including mid-utterance; standalone configuration objects (config_set_str/int/float/bool with matching and mismatching types, unknown and empty keys, NULL values, typed getters, unset, parse_json of valid and invalid text, serialize_json which must read back, retain/free); decoder_reinit with a new configuration object (valid English or French model, missing model directory, missing or unreadable dictionary, invalid loglevel, grammars named in the configuration including one with an unknown word) after which a failed decoder may only be reinitialised or freed; alignments retained across utterances and reinitialisation; lattice forward and reverse edge traversal, posterior pruning with beams down to 0 followed by bestpath; decoder_set_jsgf_file on a valid file, a missing file, a non-JSGF file and a directory. 55% of histories follow the protocol; 45% may call anything in any state. Each call's return value is compared with the documented one where the documentation fixes it; after the history a fixed utterance must still align correctly; after every object is released __lsan_do_leak_check must find nothing. Reinitialisation configurations include the three derived model layouts of DESIGN.md 9.9.",
    level_note="Trusted: ASan/UBSan/LeakSanitizer, the fork runner's death classification, and the interpreter's own liveness bookkeeping (iterators are closed before calls that replace the result they walk). Object pointers are always valid (the property quantifies over valid pointers). 'Every call returns': a history still running at ten times the 60 s per-case limit is a violation (none seen).",
    quick=dict(cases=480, maxlen=400, budget=120),
    thorough=dict(cases=16000, maxlen=600, budget=1800),
    rule=("choices decode to (number of calls, protocol-following or free-for-all, then per call: decoder index, operation, arguments). Non-trivial = at least 6 calls, "
          "at least one utterance that consumed frames and at least one result query; distinct = distinct rendered history."),
    assumptions=["object pointers handed to the API are live (the interpreter never passes a freed object)"],
)

PROPS["C10"] = dict(
    harness="inputs",
    level="exploration",
    technique="structure-aware mutation testing driven by rapidcheck (valid generated JSGF / FSG / dictionary / configuration / text inputs + 0-3 typed mutations, or raw bytes), each case in a forked child under ASan/UBSan with asserts on; returned objects are used and freed; thorough tier adds coverage-guided libFuzzer campaigns on the same entry points",
    level_text="Valid generated inputs for the five text front doors (JSGF text; FSG text through a memory buffer of exactly its length; dictionary + filler dictionary buffers; JSON / key-value configuration; alignment text, word+pronunciation, lookup and cmn strings on a live decoder) are mutated with hostile numbers (0, -1, 1e9, 1e-320, nan, inf, 2^31, 2^63 ...), tokens of up to 100,000 bytes, nesting up to depth 20,000, dropped terminators, NUL / 0x80-0xFF / control bytes, duplicated lines, swapped fields, truncation and byte noise. The call must return (no sanitizer report, assertion, exit or timeout); accepted objects are iterated, written, transformed, installed in a decoder and decoded with, serialised and re-parsed, and freed.",
    level_note="Trusted: ASan/UBSan, the fork runner's death classification. Semantic correctness of valid inputs is judged by C05/C13/C16; this check is about safety. 'Never loops forever': a case that exceeds the 20 s limit is interrupted (the sanitizer runtime prints where it was), re-run alone with ten times the limit, and reported as a violation timeout:<chain of library functions> only if it is still running then; slower-but-finishing cases stay inconclusive and are counted per library function in the evidence.",
    quick=dict(cases=900, maxlen=700, budget=100),
    thorough=dict(cases=30000, maxlen=700, budget=1500),
    rule=("choices decode to (target in {jsgf, fsg, dict, config, text}, a valid generated input, 0-3 typed mutations or raw bytes). Non-trivial = the input was accepted "
          "(an object came back and was used) or it is >= 16 bytes long; distinct = distinct input text."),
    assumptions=["C-string APIs see the input up to its first NUL byte"],
)
