"""Per-property registration: harness, budgets, non-triviality rule."""

PROPS = {}

MANIFEST_META = dict(
    hooks=dict(
        guard="SOUNDSWALLOWER_VERIF",
        enable="checks compile /repo/src with -DSOUNDSWALLOWER_VERIF (clang, ASan+UBSan, asserts on); no guarded hook exists so far: observation uses link-time --wrap and the installed internal headers",
        baseline_off_cmd="cmake -S /repo -B /repo/_build -G Ninja >/dev/null && cmake --build /repo/_build >/dev/null && ctest --test-dir /repo/_build -j8 --timeout 900",
        source_commits=[],
        add_only=True,
    ),
    engines=[
        dict(name="rapidcheck", path="/verif/harness/common/pbt_main.cpp",
             serves_properties=[],
             kind_free_text="rapidcheck generates (explicit choice prefix, tail seed); harnesses decode the materialised choice sequence into structured cases; forked case isolation, crash classification, delta-debugging shrinker, plain replay path"),
    ],
    not_applicable={},
    notes="Driver: ./check <ID> [--tier quick|thorough] [--replay FILE]; VERIF_SEED and VERIF_TIER honoured. Known findings: known_findings.txt.",
)

PROPS["C20"] = dict(
    harness="hash",
    level="exploration",
    technique="model-based stateful property testing (rapidcheck-generated op histories vs std::map reference model)",
    level_text="Generated operation histories over collision-rich key pools are compared step by step with a std::map reference; exploration only - absence of violations on the explored histories, not a proof.",
    level_note="Trusted: std::map, the harness' read-only chain inspection, ASan/UBSan runtimes. Assumes keys stay alive (the table does not copy keys) and binary keys only on case-sensitive tables.",
    quick=dict(cases=4000, maxlen=1300, budget=60),
    thorough=dict(cases=60000, maxlen=1300, budget=600),
    rule=("rapidcheck generates a choice sequence decoded into (case mode, string|binary keys, size request, "
          "key pool of 2-400 keys drawn from a collision-rich shortlex space over {a,A,b,B,z,0,_,0x80,0xff} or "
          "{00,01,a,A,ff}, then 1-300 ops enter/replace/delete/lookup(+_int32,_bkey)/delete-at-chain-position/"
          "empty/full-iteration-and-tolist check); every op is compared with a std::map model. Non-trivial = the "
          "history deleted an element of a collision chain of length >= 3; distinct = distinct op-sequence text."),
    assumptions=["keys stay alive and unmodified while stored (the table does not copy keys)",
                 "binary keys are used only with case-sensitive tables and never mixed with string keys in one table",
                 "values are distinct non-NULL tokens"],
)
