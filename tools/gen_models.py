#!/usr/bin/env python3
"""Derives, from /repo's bundled en-us model, the model layouts that the bundled models do not
exercise but that the library's loaders and scorers support (DESIGN.md 9.9):

  mixw/   PTM model whose mixture weights come as a float 'mixture_weights' file instead of the
          quantised senone dump (read_mixw in ptm_mgau.c; with senmgau=.ptm. or a 'senmgau'
          mapping file - written by the harness from the model definition - the same directory
          is served by ms_mgau.c / ms_senone.c)
  semi/   semi-continuous layout: one codebook (the first of the bundled 42), the bundled senone
          dump (s2_semi_mgau.c).  Acoustically meaningless, structurally valid.

usage: gen_models.py <repo-dir> <out-dir>       (stdlib only; deterministic)
"""
import array
import math
import os
import struct
import sys

repo, out = sys.argv[1], sys.argv[2]
src = os.path.join(repo, "model", "en-us")
HDR = b"s3\nversion %s\nendhdr\n"
MAGIC = struct.pack("<I", 0x11223344)


def body(fn):
    b = open(os.path.join(src, fn), "rb").read()
    i = b.index(b"endhdr\n") + 7
    return b, i


def link(dst_dir, names):
    for n in names:
        p = os.path.join(dst_dir, n)
        if os.path.lexists(p):
            os.unlink(p)
        os.symlink(os.path.join(src, n), p)


def write(path, data):
    tmp = path + ".tmp%d" % os.getpid()
    with open(tmp, "wb") as f:
        f.write(data)
    os.replace(tmp, path)


# ---- parse the senone dump (8-bit, unclustered layout of the bundled model)
sd = open(os.path.join(src, "sendump"), "rb").read()
off = 0
while True:
    (n,) = struct.unpack_from("<i", sd, off)
    off += 4
    if n == 0:
        break
    off += n
rows, cols = struct.unpack_from("<ii", sd, off)
off += 8
mb, mi = body("means")
n_mgau, n_feat, n_density = struct.unpack_from("<iii", mb, mi + 4)
veclen = struct.unpack_from("<%di" % n_feat, mb, mi + 16)
assert rows == n_density, (rows, n_density)
# number of senones from the binary model definition: header word 4 (n_sen) after the format string
md = open(os.path.join(src, "mdef"), "rb").read()
(fmtlen,) = struct.unpack_from("<i", md, 8)
fields = struct.unpack_from("<10i", md, 12 + fmtlen)
n_ciphone, n_phone, n_emit_state, n_ci_sen, n_sen = fields[0], fields[1], fields[2], fields[3], fields[4]
assert n_sen <= cols and n_mgau == n_ciphone, (n_sen, cols, n_mgau, n_ciphone)
step = cols
q = [[sd[off + (f * rows + r) * step: off + (f * rows + r) * step + n_sen] for r in range(rows)] for f in range(n_feat)]
assert off + n_feat * rows * step <= len(sd)

# ---- mixw/: float mixture weights equivalent to the dump
d = os.path.join(out, "mixw")
os.makedirs(d, exist_ok=True)
link(d, ["mdef", "means", "variances", "transition_matrices", "feat_params.json", "noisedict.txt"])
tab = [math.exp(-(v << 10) * math.log(1.0001)) for v in range(256)]
w = array.array("f", bytes(4 * n_sen * n_feat * n_density))
k = 0
for s in range(n_sen):
    for f in range(n_feat):
        qf = q[f]
        for c in range(n_density):
            w[k] = tab[qf[c][s]]
            k += 1
if sys.byteorder != "little":
    w.byteswap()
write(os.path.join(d, "mixture_weights"),
      HDR % b"1.0" + MAGIC + struct.pack("<iiii", n_sen, n_feat, n_density, n_sen * n_feat * n_density) + w.tobytes())

# ---- semi/: one codebook + the bundled dump
d = os.path.join(out, "semi")
os.makedirs(d, exist_ok=True)
link(d, ["mdef", "transition_matrices", "feat_params.json", "noisedict.txt", "sendump"])
per_cb = n_feat * n_density * veclen[0]
assert len(set(veclen)) == 1
for fn, vb in (("means", mb), ("variances", body("variances")[0])):
    i = vb.index(b"endhdr\n") + 7
    floats = vb[i + 4 + 12 + 4 * n_feat + 4: i + 4 + 12 + 4 * n_feat + 4 + 4 * per_cb]
    write(os.path.join(d, fn),
          HDR % b"1.0" + MAGIC + struct.pack("<iii", 1, n_feat, n_density) + struct.pack("<%di" % n_feat, *veclen)
          + struct.pack("<i", per_cb) + floats)
print("models written to", out, "n_sen=%d n_mgau=%d n_feat=%d n_density=%d" % (n_sen, n_mgau, n_feat, n_density))
