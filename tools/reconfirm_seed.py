#!/usr/bin/env python3
"""Re-confirms a filed seeded change (/verif/seeded/<name>) against /repo's current HEAD in scratch worktree /tmp/mutc:
patch applies, 30 stable tests pass, demo says VIOLATED with the patch and HOLDS without.  usage: reconfirm_seed.py <name> [...]"""
import json, os, re, shutil, subprocess, sys
M = "/tmp/mutc"
def sh(cmd, **kw):
    return subprocess.run(cmd, shell=True, capture_output=True, text=True, **kw)
if not os.path.isdir(M):
    sh("git -C /repo worktree add --detach %s" % M)
head = sh("git -C /repo rev-parse HEAD").stdout.strip()
for name in sys.argv[1:]:
    d = "/verif/seeded/" + name
    meta = json.load(open(d + "/meta.json"))
    sh("git -C %s checkout -q -- . && git -C %s checkout -q --detach %s" % (M, M, head))
    if sh("git -C %s apply --check %s/patch.diff" % (M, d)).returncode:
        print(name, "PATCH-DOES-NOT-APPLY"); continue
    work = "/tmp/mutc_demo"
    shutil.rmtree(work, ignore_errors=True); shutil.copytree(d, work)
    cmd = meta["demo_build"]
    # paths: the agent's out dir and worktree
    m = re.search(r"/tmp/seed/out_C\d\d", cmd); out = m.group(0) if m else None
    m = re.search(r"/tmp/seed/wt_C\d\d", cmd); wt = m.group(0) if m else None
    if out: cmd = cmd.replace(out, work)
    if wt: cmd = cmd.replace(wt, M)
    def tests():
        r = sh("/verif/tools/seed_run_tests.sh %s" % M, timeout=3600); return (r.stdout.strip().splitlines() or ["?"])[-1]
    def demo():
        r = sh(cmd, cwd=work, timeout=1800); o = r.stdout + r.stderr
        return "VIOLATED" if "PROPERTY VIOLATED" in o else "HOLDS" if "PROPERTY HOLDS" in o else "??? " + o[-200:]
    sh("git -C %s apply %s/patch.diff" % (M, d))
    t1, d1 = tests(), demo()
    sh("git -C %s checkout -q -- ." % M)
    t2, d2 = tests(), demo()
    ok = t1.startswith("ALL 30") and t2.startswith("ALL 30") and d1 == "VIOLATED" and d2 == "HOLDS"
    print(name, "CONFIRMED" if ok else "NOT-CONFIRMED", "| with patch:", t1[:12], d1[:60], "| without:", t2[:12], d2[:60])
    shutil.rmtree(work, ignore_errors=True)
