#!/bin/bash
# Runs every filed seeded change (seeded/<name>/patch.diff) against the check of the property it was written for
# (plus any extra check named in seeded/EXTRA), in a scratch worktree; prints one line per pair.
# usage: tools/seeded_all.sh [tier] [names...]
cd "$(dirname "$0")/.." || exit 2
TIER=${1:-quick}; shift
NAMES=${*:-$(ls seeded | grep -E '^C[0-9][0-9]-[A-Z]$')}
for n in $NAMES; do
  id=${n%%-*}
  if grep -q '"status": "superseded"' seeded/$n/meta.json; then echo "$n superseded"; continue; fi
  tools/seeded.py seeded/$n $id $TIER 2>&1 | grep -E "^SEEDED|^VIOLATION" | tr '\n' ' '; echo
done
