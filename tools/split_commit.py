#!/usr/bin/env python3
"""Commits the working-tree changes of /repo as several commits, one per group of hunks.
usage: split_commit.py <spec.json>   spec = [[ [hunk indices], "message" ], ...]; hunks are numbered in `git diff` order."""
import json, re, subprocess, sys
spec = json.load(open(sys.argv[1]))
diff = subprocess.run(["git", "-C", "/repo", "diff"], capture_output=True, text=True).stdout
files = [f for f in re.split(r"(?m)^(?=diff --git)", diff) if f.strip()]
hunks = []
for f in files:
    parts = re.split(r"(?m)^(?=@@ )", f)
    for h in parts[1:]:
        hunks.append((parts[0], h))
if len(sys.argv) > 2:
    for i, (hd, h) in enumerate(hunks):
        print(i, hd.splitlines()[0].split()[-1], h.splitlines()[0])
    sys.exit(0)
used = sorted(i for idx, _ in spec for i in idx)
assert used == list(range(len(hunks))), (used, len(hunks))
subprocess.run(["git", "-C", "/repo", "checkout", "--", "."], check=True)
for idx, msg in spec:
    byfile = {}
    for i in idx:
        byfile.setdefault(hunks[i][0], []).append(hunks[i][1])
    open("/tmp/_p.diff", "w").write("".join(h + "".join(hs) for h, hs in byfile.items()))
    subprocess.run(["git", "-C", "/repo", "apply", "--recount", "/tmp/_p.diff"], check=True)
    subprocess.run(["git", "-C", "/repo", "commit", "-qam", msg], check=True)
    print(subprocess.run(["git", "-C", "/repo", "log", "--format=%h %s", "-1"], capture_output=True, text=True).stdout.strip())
