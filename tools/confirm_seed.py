#!/usr/bin/env python3
"""Confirms a seeded change delivered by a sub-agent and files it under /verif/seeded/<name>/.
usage: confirm_seed.py <outdir> <X> <agent-worktree>     e.g. /tmp/seed/out_C05 A /tmp/seed/wt_C05
Steps (all in a scratch worktree /tmp/mutc of /repo HEAD): patch applies; library builds; the 30 stable tests pass;
the demonstration prints PROPERTY VIOLATED with the patch and PROPERTY HOLDS without it."""
import json, os, re, shutil, subprocess, sys
out, X, agent_wt = sys.argv[1], sys.argv[2], sys.argv[3].rstrip("/")
M = "/tmp/mutc" + os.environ.get("SLOT", "")
def sh(cmd, **kw):
    return subprocess.run(cmd, shell=True, capture_output=True, text=True, **kw)
if not os.path.isdir(M):
    sh("git -C /repo worktree add --detach %s" % M)
head = sh("git -C /repo rev-parse HEAD").stdout.strip()
sh("git -C %s checkout -q -- . && git -C %s checkout -q --detach %s" % (M, M, head))
meta = json.load(open("%s/%s_meta.json" % (out, X)))
patch = "%s/%s.diff" % (out, X)
r = sh("git -C %s apply --check %s" % (M, patch))
if r.returncode:
    sys.exit("patch does not apply: " + r.stderr)
work = M + "_demo"
shutil.rmtree(work, ignore_errors=True)
shutil.copytree(out, work)
def clean(cmd):
    """the tool applies the patch and builds the library itself: drop those steps (and trailing remarks) from the agent's command"""
    cmd = cmd.split("   #")[0]
    cmd = re.sub(r"\(\s*cd [^)]*git[^)]*\)\s*(&&|;)", "", cmd)
    for pat in (r"git (-C \S+ )?apply[^&;]*(&&|;)", r"cmake --build[^&;]*(&&|;)", r"\S*run_tests\.sh[^&;]*(&&|;)", r"git (-C \S+ )?checkout[^&;]*(&&|;)"):
        cmd = re.sub(pat, "", cmd)
    return cmd
def demo():
    cmd = clean(meta["demo_build"]).replace(out, work).replace(agent_wt, M)
    r = sh(cmd, cwd=work, timeout=1800)
    return r.stdout + r.stderr
def build_and_test():
    r = sh("/verif/tools/seed_run_tests.sh %s" % M, timeout=3600)
    return r.stdout.strip().splitlines()[-1] if r.stdout.strip() else "no output " + r.stderr[-300:]
res = {}
sh("git -C %s apply %s" % (M, patch))
res["tests_with_patch"] = build_and_test()
o = demo()
res["demo_with_patch"] = "VIOLATED" if "PROPERTY VIOLATED" in o else ("HOLDS" if "PROPERTY HOLDS" in o else "??? " + o[-400:])
sh("git -C %s checkout -q -- ." % M)
res["tests_without_patch"] = build_and_test()
o2 = demo()
res["demo_without_patch"] = "VIOLATED" if "PROPERTY VIOLATED" in o2 else ("HOLDS" if "PROPERTY HOLDS" in o2 else "??? " + o2[-400:])
ok = (res["tests_with_patch"].startswith("ALL 30") and res["tests_without_patch"].startswith("ALL 30")
      and res["demo_with_patch"] == "VIOLATED" and res["demo_without_patch"] == "HOLDS")
print(json.dumps(res, indent=1))
print("CONFIRMED" if ok else "NOT CONFIRMED", meta["id"])
if ok:
    dst = "/verif/seeded/%s" % meta["id"]
    os.makedirs(dst, exist_ok=True)
    shutil.copy(patch, dst + "/patch.diff")
    for f in os.listdir(out):
        if f.startswith(X + "_demo") and not os.access(os.path.join(out, f), os.X_OK) or f.startswith(X + "_demo."):
            shutil.copy(os.path.join(out, f), dst + "/" + f.replace(X + "_", "", 1))
    meta["demo_build"] = clean(meta["demo_build"]).replace(X + "_demo", "demo")
    meta["confirmed"] = dict(res, repo_head=head, note="paths in demo_build refer to the sub-agent's scratch worktree; substitute any checkout with the patch applied and built in <checkout>/_build")
    json.dump(meta, open(dst + "/meta.json", "w"), indent=1)
shutil.rmtree(work, ignore_errors=True)
