#!/usr/bin/env python3
"""Runs checks against a seeded change kept in /verif/seeded/<name>/patch.diff (or any patch file).
usage: seeded.py <patch-or-seeded-dir> <ID>[,<ID>...] [tier] [--slot N]
The patch is applied to a scratch worktree /tmp/mut<N> of /repo's HEAD (never to /repo), the checks
run with VERIF_REPO pointing there (evidence and replays untouched), and the worktree is reverted."""
import os, subprocess, sys
args = [a for a in sys.argv[1:] if not a.startswith("--slot")]
slot = ""
for i, a in enumerate(sys.argv):
    if a == "--slot":
        slot = sys.argv[i + 1]
        args.remove(slot)
patch, ids = args[0], args[1].split(",")
tier = args[2] if len(args) > 2 else "quick"
if os.path.isdir(patch):
    patch = os.path.join(patch, "patch.diff")
patch = os.path.abspath(patch)
M = "/tmp/mut" + slot
if not os.path.isdir(M):
    subprocess.run(["git", "-C", "/repo", "worktree", "add", "--detach", M], check=True, stdout=subprocess.DEVNULL, stderr=subprocess.DEVNULL)
head = subprocess.run(["git", "-C", "/repo", "rev-parse", "HEAD"], capture_output=True, text=True).stdout.strip()
subprocess.run(["git", "-C", M, "checkout", "-q", "--", "."], check=True)
subprocess.run(["git", "-C", M, "checkout", "-q", "--detach", head], check=True)
subprocess.run(["git", "-C", M, "apply", patch], check=True)
here = os.path.dirname(os.path.abspath(__file__))
rc_all = 0
try:
    for pid in ids:
        env = dict(os.environ, VERIF_REPO=M)
        r = subprocess.run([os.path.join(here, "..", "check"), pid, "--tier", tier], env=env, capture_output=True, text=True)
        lines = [l for l in r.stdout.splitlines() if l.startswith(("SUMMARY", "VIOLATION", "--- failing", "# case", "# detail", "KNOWN"))]
        print("\n".join(l[:300] for l in lines[-8:]))
        caught = r.returncode == 1 and "VIOLATION" in r.stdout
        print("SEEDED %s vs %s: %s" % (os.path.basename(os.path.dirname(patch)) or patch, pid, "CAUGHT" if caught else "MISSED (exit %d)" % r.returncode))
        if r.returncode not in (0, 1):
            print(r.stdout[-1500:], r.stderr[-1500:])
finally:
    subprocess.run(["git", "-C", M, "checkout", "-q", "--", "."], check=True)
