#!/usr/bin/env python3
"""Regenerates MANIFEST.json from tools/registry.py (single source of truth)."""
import json, os, sys
sys.path.insert(0, os.path.dirname(os.path.abspath(__file__)))
from registry import PROPS, MANIFEST_META

ALL = ["C%02d" % i for i in range(1, 21)]
checks = []
for pid in ALL:
    if pid not in PROPS:
        continue
    s = PROPS[pid]
    checks.append({
        "property_id": pid,
        "quick_cmd": "./check %s --tier quick" % pid,
        "thorough_cmd": "./check %s --tier thorough" % pid,
        "evidence_file": "/verif/evidence/%s.json" % pid,
        "replay_cmd_template": "./check %s --replay {path}" % pid,
        "engine": s.get("engine", "rapidcheck"),
        "level_claimed": {"category": s.get("level", "exploration"), "text": s["level_text"], "design_ref": s.get("design_ref", "DESIGN.md section 3, " + pid)},
        "level_note": s["level_note"],
        "technique": s["technique"],
    })
na = [{"property_id": pid, "reason": MANIFEST_META["not_applicable"].get(pid, "check not built yet in this round; no claim is made")}
      for pid in ALL if pid not in PROPS]
for e in MANIFEST_META["engines"]:
    e["serves_properties"] = sorted(p for p in PROPS if PROPS[p].get("engine", "rapidcheck") == e["name"])
m = {
    "version": 1,
    "setup_cmd": "./check --setup",
    "hooks": MANIFEST_META["hooks"],
    "engines": MANIFEST_META["engines"],
    "checks": checks,
    "not_applicable": na,
    "notes": MANIFEST_META["notes"],
}
with open(os.path.join(os.path.dirname(os.path.abspath(__file__)), "..", "MANIFEST.json"), "w") as f:
    json.dump(m, f, indent=1)
    f.write("\n")
print("wrote MANIFEST.json with %d checks, %d not_applicable" % (len(checks), len(na)))
