#!/usr/bin/env python3
"""Sensitivity helper: apply a textual mutation to a scratch worktree of /repo,
run a check against it, revert.  usage: mutant.py <ID> <file> <old> <new> [tier]
The scratch worktree lives at /tmp/mut (created on demand, synced to /repo HEAD)."""
import os, subprocess, sys
pid, f, old, new = sys.argv[1:5]
tier = sys.argv[5] if len(sys.argv) > 5 else "quick"
M = "/tmp/mut"
if not os.path.isdir(M):
    subprocess.run(["git", "-C", "/repo", "worktree", "add", "--detach", M], check=True, stdout=subprocess.DEVNULL, stderr=subprocess.DEVNULL)
head = subprocess.run(["git", "-C", "/repo", "rev-parse", "HEAD"], capture_output=True, text=True).stdout.strip()
subprocess.run(["git", "-C", M, "checkout", "-q", "--detach", head], check=True)
subprocess.run(["git", "-C", M, "checkout", "-q", "--", "."], check=True)
p = os.path.join(M, f)
s = open(p).read()
old = old.encode().decode("unicode_escape"); new = new.encode().decode("unicode_escape")
if s.count(old) < 1:
    sys.exit("mutation site not found in %s" % f)
open(p, "w").write(s.replace(old, new, 1))
env = dict(os.environ, VERIF_REPO=M)
r = subprocess.run([os.path.join(os.path.dirname(os.path.abspath(__file__)), "..", "check"), pid, "--tier", tier], env=env, capture_output=True, text=True)
lines = [l for l in r.stdout.splitlines() if l.startswith(("SUMMARY", "VIOLATION", "--- failing", "# case", "KNOWN"))]
print("\n".join(lines[-6:]))
print("MUTANT %s: %s" % ("CAUGHT" if r.returncode == 1 and "VIOLATION" in r.stdout else "MISSED (exit %d)" % r.returncode, f))
if r.returncode not in (0, 1):
    print(r.stdout[-1500:], r.stderr[-1500:])
subprocess.run(["git", "-C", M, "checkout", "-q", "--", "."], check=True)
