#!/bin/bash
# usage: run_tests.sh <worktree>   -- builds <worktree>/_build and runs the repository's 30 stable tests
R=$1; B=$R/_build
cmake -S "$R" -B "$B" -G Ninja -DCMAKE_BUILD_TYPE=RelWithDebInfo >/dev/null || { echo "CONFIGURE FAILED"; exit 2; }
cmake --build "$B" --target check > "$B/build.out" 2>&1
grep -q "error:" "$B/build.out" && { grep "error:" "$B/build.out" | head; echo "BUILD FAILED"; exit 2; }
ctest --test-dir "$B" -j4 --timeout 900 > "$B/ctest.out" 2>&1
STABLE="lcase1 lcase2 lcase3 strcmp1 strcmp2 strcmp3 test_acmod test_acmod_grow test_add_words test_bitvec test_byteorder test_ckd_alloc test_dict2pid test_dict test_endpointer test_err test_feat_fe test_feat_live test_fsg test_hash_iter test_jsgf test_listelem_alloc test_log_shifted test_ptm_mgau test_s3file test_subvq test_word_align ucase1 ucase2 ucase3"
fail=0
for t in $STABLE; do
  grep -Eq "Test +#[0-9]+: +$t +\.+ +Passed" "$B/ctest.out" || { echo "NOT PASSING: $t"; fail=1; }
done
[ $fail = 0 ] && echo "ALL 30 STABLE TESTS PASS" || exit 1
